package rules

import (
	"fmt"
	"go/ast"
	"go/token"
	"go/types"
	"math"
	"sort"
	"strings"

	"verif/checker/internal/astx"
	"verif/checker/internal/core"
)

func init() {
	register(&core.Rule{ID: "negotiate", Run: negotiate,
		Doc: "negotiateCompression: the request compression becomes the client's name only under Contains(name); an unsupported name returns a non-nil unimplemented error built from CommaSeparatedNames(); the response compression starts as the request compression and is replaced by a name from the client's accept list only under Contains(name), at most once per call (the loop over the client's list, in the client's order, stops at the first hit)."})
	register(&core.Rule{ID: "min-bytes-gate", Run: minBytesGate,
		Doc: "Both compression gates (enveloped and unary) reach Compress exactly when a pool is configured and the uncompressed size is >= compressMinBytes (decided at size = min-1 and size = min), and the gate dominates the Compress call."})
	register(&core.Rule{ID: "compression-roles", Run: compressionRoles,
		Doc: "Per protocol and for every unary/streaming configuration: the header the client writes its accept list (CommaSeparatedNames) to is the one the handler passes to negotiation as the accept list; the header the client names its send compression in is the one the handler passes as the sent compression; the header the handler names its response compression in is the one the client's validateResponse reads to choose its decompressor; and the value written to that header is the same negotiated value that selects the writer's pool."})
	register(&core.Rule{ID: "client-encoding-validated", Run: clientEncodingValidated,
		Doc: "Every client assigns its reader's decompression pool from pools.Get(X) only on paths where X is empty, identity, or Contains(X) held (checked in the same function, or in a first-party validator whose nil result is established on the path and which validates the same header constant); the rejecting branch returns a coded error mentioning CommaSeparatedNames()."})
	register(&core.Rule{ID: "pool-hygiene", Run: poolHygiene,
		Doc: "The (de)compressor sync.Pools are touched only by the four get/put helpers; get* always Resets the object onto the new source/sink before handing it out; put* Closes it, never pools an object whose Close failed, and Resets it before Pool.Put; Compress/Decompress reach put* exactly once on every path after a successful get*. bufferPool.Put resets the buffer before pooling it and its recycle cap tests Cap()."})
	register(&core.Rule{ID: "preference-order", Run: preferenceOrder,
		Doc: "The advertised compression list is built from the registration list from last to first, de-duplicated, so the most recently registered algorithm is the most preferred; client construction fails for a send-compression name that is not registered."})
	register(&core.Rule{ID: "bounded-read", Run: boundedRead,
		Doc: "Every sink that moves peer-controlled bytes into memory is bounded by the read limit N exactly: the envelope reader grows/copies the declared size only when not (N > 0 and size > N) (N accepted, N+1 rejected, with a non-nil error and only a discard of the payload); the unary reader and the decompressor read through io.LimitReader(src, N+1) whenever N > 0 and reject count > N before the bytes reach the codec (N accepted, N+1 rejected)."})
	register(&core.Rule{ID: "limit-wiring", Run: limitWiring,
		Doc: "Every reader/writer literal built by a protocol's NewConn takes readMaxBytes, compressMinBytes and bufferPool from the protocol params of the same name; the params are filled from the config fields the options store into; every Decompress call passes its own reader's readMaxBytes as the limit."})
}

func fn(p *core.Program, name string) *ast.FuncDecl { return p.FuncDecl(core.ConnectPath, name) }

func isMethodNamed(info *types.Info, call *ast.CallExpr, name string) bool {
	f := astx.CalleeFunc(info, call)
	if f == nil {
		return false
	}
	if f.Name() == name {
		return true
	}
	// a function that took the place of a vanished method of that name (core: method→function stand-in)
	if p := core.Current; p != nil {
		if fd := p.Decl(f); fd != nil && strings.HasSuffix(p.StoodInFor(fd), "."+name) {
			return true
		}
	}
	return false
}

func negotiate(c *core.Ctx) {
	p := c.P
	info := p.Connect.TypesInfo
	fd := fn(p, "negotiateCompression")
	if fd == nil {
		c.Unresolved("negotiateCompression", "function not found")
		return
	}
	sig := info.Defs[fd.Name].(*types.Func).Type().(*types.Signature)
	if sig.Params().Len() != 3 || sig.Results().Len() != 3 {
		c.Undecided("signature", fd.Pos(), "expected (pools, sent, accept) -> (request, response, error)")
		return
	}
	sent, accept := sig.Params().At(1), sig.Params().At(2)
	// result variables (named results); without them the values returned are traced per exit below
	named := !(fd.Type.Results == nil || len(fd.Type.Results.List) == 0 || len(fd.Type.Results.List[0].Names) == 0)
	reqR, respR := sig.Results().At(0), sig.Results().At(1)
	unimpl, _ := constIntOf(p, "CodeUnimplemented")
	containsOf := func(conj []astx.Cond, arg types.Object, want bool) bool {
		for _, f := range conj {
			if call, ok := astx.Unparen(f.Expr).(*ast.CallExpr); ok && isMethodNamed(info, call, "Contains") && len(call.Args) == 1 && astx.ObjOf(info, call.Args[0]) == arg && f.Pol == want {
				return true
			}
		}
		return false
	}
	// the accept list: strings.FieldsFunc/Split/Fields(accept, ...) or a local defined as that
	tokenizers := map[*ast.CallExpr]string{} // tokenizer call -> problem ("" = splits on commas and blanks)
	isAcceptList := func(e ast.Expr) bool {
		e = astx.Unparen(e)
		if id, ok := e.(*ast.Ident); ok {
			if def := soleDefinition(info, fd.Body, astx.ObjOf(info, id)); def != nil {
				e = astx.Unparen(def)
			}
		}
		call, ok := e.(*ast.CallExpr)
		if !ok || len(call.Args) < 1 || astx.ObjOf(info, call.Args[0]) != accept {
			return false
		}
		callee := astx.Callee(info, call)
		switch {
		case astx.IsPkgFunc(callee, "strings", "FieldsFunc") && len(call.Args) == 2:
			tokenizers[call] = tokenizerSplitsOn(p, info, call.Args[1])
			return true
		case astx.IsPkgFunc(callee, "strings", "Split"), astx.IsPkgFunc(callee, "strings", "Fields"), astx.IsPkgFunc(callee, "strings", "SplitN"):
			tokenizers[call] = "does not drop the blanks around the commas of an HTTP list (\"a, b\")"
			return true
		}
		return false
	}
	// acceptElem recognises "the current element of the accept list, visited front to back":
	// the value variable of a range over the list, or list[i] inside `for i := 0; i < len(list); i++`.
	acceptElem := func(e ast.Expr) (string, bool) {
		e = astx.Unparen(e)
		switch x := e.(type) {
		case *ast.Ident:
			obj := astx.ObjOf(info, x)
			for _, l := range loopsIn(fd.Body) {
				if r, ok := l.(*ast.RangeStmt); ok && r.Value != nil && obj != nil && astx.ObjOf(info, r.Value) == obj && isAcceptList(r.X) {
					// the element as the client wrote it: a loop body that rewrites the variable (cuts
					// parameters off, trims, lower-cases) compares something the client did not send
					if objWrittenIn(info, r.Body, obj) {
						return "", false
					}
					return astx.CanonKey(info, x), true
				}
			}
		case *ast.IndexExpr:
			idx := astx.ObjOf(info, x.Index)
			if idx == nil || !isAcceptList(x.X) {
				return "", false
			}
			for _, l := range loopsIn(fd.Body) {
				f, ok := l.(*ast.ForStmt)
				if !ok || !astx.Contains(f, x) {
					continue
				}
				init, ok1 := f.Init.(*ast.AssignStmt)
				post, ok2 := f.Post.(*ast.IncDecStmt)
				cond, ok3 := f.Cond.(*ast.BinaryExpr)
				if !ok1 || !ok2 || !ok3 || len(init.Lhs) != 1 || len(init.Rhs) != 1 {
					continue
				}
				zero, isC := astx.ConstInt(info, init.Rhs[0])
				if astx.ObjOf(info, init.Lhs[0]) != idx || !isC || zero != 0 || post.Tok != token.INC || astx.ObjOf(info, post.X) != idx {
					continue
				}
				if cond.Op != token.LSS || astx.ObjOf(info, cond.X) != idx {
					continue
				}
				if lc, ok := astx.Unparen(cond.Y).(*ast.CallExpr); ok && len(lc.Args) == 1 && astx.IsBuiltin(info, lc, "len") && isAcceptList(lc.Args[0]) {
					return astx.CanonKey(info, x), true
				}
			}
		}
		return "", false
	}
	if true {
		// every exit is analysed by tracing the returned values back along its path (independent of
		// whether the results are named variables, assigned directly or through copies)
		_ = named
		negotiateByReturns(c, p, info, fd, sent, accept, acceptElem, unimpl)
		for call, problem := range tokenizers {
			c.Check(problem == "", "accept-list/tokenizer", call.Pos(), "the client's list is split on commas and blanks alike%s", map[bool]string{true: "", false: " - " + problem}[problem == ""])
			break
		}
		return
	}
	// assignments
	nReq, nResp := 0, 0
	ast.Inspect(fd.Body, func(n ast.Node) bool {
		as, ok := n.(*ast.AssignStmt)
		if !ok || len(as.Lhs) != 1 || len(as.Rhs) != 1 {
			return true
		}
		lhs := astx.ObjOf(info, as.Lhs[0])
		rhs := astx.ObjOf(info, as.Rhs[0])
		elemKey, isElem := acceptElem(as.Rhs[0])
		switch {
		case lhs == reqR && rhs == sent:
			nReq++
			dnf, _ := astx.PathConditions(info, fd.Body, as)
			all := len(dnf) > 0
			for _, conj := range dnf {
				all = all && containsOf(conj, sent, true)
			}
			c.Check(all, "request/contains", as.Pos(), "requestCompression = sent only under availableCompressors.Contains(sent)")
		case lhs == respR && rhs == reqR:
			c.Ok("response/default", as.Pos(), "responseCompression starts as requestCompression")
		case lhs == respR && isElem:
			nResp++
			c.Ok("response/client-order", as.Pos(), "the candidate comes from iterating the client's accept list in its own order")
			dnf, _ := astx.PathConditions(info, fd.Body, as)
			all := len(dnf) > 0
			for _, conj := range dnf {
				found := false
				for _, f := range conj {
					if call, ok := astx.Unparen(f.Expr).(*ast.CallExpr); ok && isMethodNamed(info, call, "Contains") && len(call.Args) == 1 && astx.CanonKey(info, call.Args[0]) == elemKey && f.Pol {
						found = true
					}
				}
				all = all && found
			}
			c.Check(all, "response/contains", as.Pos(), "responseCompression = name only under availableCompressors.Contains(name)")
		case lhs == respR:
			c.Violation("response/other-source", as.Pos(), "responseCompression assigned from %s", types.ExprString(as.Rhs[0]))
		case lhs == reqR && rhs == nil:
			if cst := astx.ConstObj(info, as.Rhs[0]); cst == nil || cst.Name() != "compressionIdentity" {
				c.Violation("request/other-source", as.Pos(), "requestCompression assigned from %s", types.ExprString(as.Rhs[0]))
			}
		}
		return true
	})
	for call, problem := range tokenizers {
		c.Check(problem == "", "accept-list/tokenizer", call.Pos(), "the client's list is split on commas and blanks alike%s", map[bool]string{true: "", false: " - " + problem}[problem == ""])
		break
	}
	c.Check(nReq == 1 && nResp == 1, "assignments", fd.Pos(), "one adoption of the sent name (%d) and one adoption of an accepted name (%d)", nReq, nResp)
	// exits
	var probs []string
	okExits, errExits := 0, 0
	// three visits per block: paths that run the accept loop twice must reach an exit, otherwise a
	// missing `break` (second adoption) would never be observed
	wk := astx.NewWalker(info, fd.Body)
	wk.MaxVisits = 3
	wk.OnExit = func(s *astx.State, kind astx.ExitKind, ret *ast.ReturnStmt) {
		if ret == nil || len(ret.Results) != 3 {
			probs = append(probs, "exit without three explicit results")
			return
		}
		// count adoptions from the accept list on this path
		adopt := 0
		for _, st := range s.Steps {
			if as, ok := st.(*ast.AssignStmt); ok && len(as.Lhs) == 1 && len(as.Rhs) == 1 && astx.ObjOf(info, as.Lhs[0]) == respR {
				if _, isElem := acceptElem(as.Rhs[0]); isElem {
					adopt++
				}
			}
		}
		if adopt > 1 {
			probs = append(probs, "a path replaces the response compression more than once: a later (less preferred) entry of the client's list wins")
		}
		if astx.IsNil(info, ret.Results[2]) {
			okExits++
			if astx.ObjOf(info, ret.Results[0]) != reqR || astx.ObjOf(info, ret.Results[1]) != respR {
				probs = append(probs, "success exit does not return (requestCompression, responseCompression)")
			}
			// sent non-empty and non-identity must have been found in the pools
			sentUnsupported := false
			for _, f := range s.Facts {
				if call, ok := astx.Unparen(f.Expr).(*ast.CallExpr); ok && isMethodNamed(info, call, "Contains") && len(call.Args) == 1 && astx.ObjOf(info, call.Args[0]) == sent && !f.Pol {
					sentUnsupported = true
				}
			}
			if sentUnsupported {
				probs = append(probs, "success exit although the sent compression is not supported")
			}
			return
		}
		errExits++
		call, ok := astx.Unparen(ret.Results[2]).(*ast.CallExpr)
		good := false
		if ok && len(call.Args) >= 1 {
			if v, isC := astx.ConstInt(info, call.Args[0]); isC && v == unimpl {
				for _, inner := range astx.Calls(call) {
					if isMethodNamed(info, inner, "CommaSeparatedNames") {
						good = true
					}
				}
			}
		}
		if !good {
			probs = append(probs, "the rejecting exit is not an unimplemented error listing CommaSeparatedNames()")
		}
		if !containsOf(factsOf(s), sent, false) {
			probs = append(probs, "an error exit that is not the unsupported-compression branch")
		}
		// an absent or "identity" request encoding is never a reason to reject
		notEmpty, notIdentity := false, false
		for _, f := range s.Facts {
			l, op, r, ok := astx.CompareOp(f.Expr)
			if !ok || astx.ObjOf(info, l) != types.Object(sent) {
				continue
			}
			if v, isC := astx.ConstString(info, r); isC && (op == token.NEQ) == f.Pol {
				switch v {
				case "":
					notEmpty = true
				case "identity":
					notIdentity = true
				}
			}
		}
		if !notEmpty || !notIdentity {
			probs = append(probs, fmt.Sprintf("a request is rejected without having established sent != \"\" (%v) and sent != identity (%v)", notEmpty, notIdentity))
		}
	}
	wk.Walk()
	trunc := wk.Truncated
	if trunc {
		c.Undecided("exits", fd.Pos(), "path enumeration truncated")
		return
	}
	c.Check(len(probs) == 0 && okExits > 0 && errExits > 0, "exits", fd.Pos(), "%d success exit(s), %d rejecting exit(s)%s", okExits, errExits, joinProblems(probs))
}

func minBytesGate(c *core.Ctx) {
	p := c.P
	info := p.Connect.TypesInfo
	gates := 0
	for _, fd := range p.AllFuncDecls(p.Connect) {
		for _, call := range astx.Calls(fd.Body) {
			if !isMethodNamed(info, call, "Compress") || astx.RecvNamed(astx.CalleeFunc(info, call)) == nil || astx.RecvNamed(astx.CalleeFunc(info, call)).Obj().Name() != "compressionPool" {
				continue
			}
			if core.FuncName(fd) == "compressionPool.Compress" {
				continue
			}
			gates++
			key := "gate/" + core.FuncName(fd)
			dnf, trunc := astx.PathConditions(info, fd.Body, call)
			if trunc || len(dnf) == 0 {
				c.Undecided(key, call.Pos(), "no path condition")
				continue
			}
			env := func(size, min int64, poolNil, already bool) astx.Env {
				return astx.Env{
					Int: func(e ast.Expr) (int64, bool) {
						if astx.IsFieldNamed(info, e, "compressMinBytes") {
							return min, true
						}
						if call, ok := e.(*ast.CallExpr); ok {
							if b, ok := astx.Callee(info, call).(*types.Builtin); ok && b.Name() == "len" {
								return size, true
							}
							if isMethodNamed(info, call, "Len") {
								return size, true
							}
						}
						return 0, false
					},
					Bool: func(e ast.Expr) (bool, bool) {
						if l, op, r, ok := astx.CompareOp(e); ok && astx.IsNil(info, r) && astx.IsFieldNamed(info, l, "compressionPool") {
							return (op == token.EQL) == poolNil, true
						}
						if call, ok := e.(*ast.CallExpr); ok && isMethodNamed(info, call, "IsSet") {
							return already, true
						}
						return false, false
					},
				}
			}
			keep := func(cd astx.Cond) bool {
				rel := mentionsField(info, cd.Expr, "compressMinBytes") || mentionsField(info, cd.Expr, "compressionPool")
				for _, cc := range astx.Calls(cd.Expr) {
					if isMethodNamed(info, cc, "IsSet") {
						rel = true
					}
				}
				return rel
			}
			below, e1 := dnf.Eval(info, env(99, 100, false, false), keep, nil)
			at, e2 := dnf.Eval(info, env(100, 100, false, false), keep, nil)
			noPool, e3 := dnf.Eval(info, env(100, 100, true, false), keep, nil)
			zero, e4 := dnf.Eval(info, env(0, 0, false, false), keep, nil)
			if e1 != nil || e2 != nil || e3 != nil || e4 != nil {
				c.Undecided(key, call.Pos(), "gate not decidable: %v %v %v %v", e1, e2, e3, e4)
				continue
			}
			_ = zero
			c.Check(!below && at && !noPool, key, call.Pos(), "Compress reached at size=min-1: %v (want false), at size=min: %v (want true), without a pool: %v (want false)", below, at, noPool)
		}
	}
	c.Floor("compression gates", gates, 2)
}

// headerConstOfValue finds, in fd, header writes header[K] = []string{V} / Set(K, V) whose value satisfies pred,
// returning (constant, path facts).
type roleUse struct {
	cst   *types.Const
	facts []astx.Cond
	pos   token.Pos
}

func headerWritesWhere(p *core.Program, info *types.Info, fd *ast.FuncDecl, pred func(v ast.Expr) bool) []roleUse {
	var out []roleUse
	if fd == nil {
		return nil
	}
	constsOf := func(e ast.Expr) []*types.Const {
		if cst := astx.ConstObj(info, e); cst != nil {
			return []*types.Const{cst}
		}
		return nil
	}
	w := astx.NewWalker(info, fd.Body)
	w.OnNode = func(s *astx.State, n ast.Node) bool {
		record := func(keyExpr ast.Expr, val ast.Expr) {
			if !pred(val) {
				return
			}
			ks := constsOf(keyExpr)
			if len(ks) == 0 {
				// a local variable holding a header name: resolve on this path
				if obj := astx.ObjOf(info, keyExpr); obj != nil {
					if rhs := s.LastAssigned(info, obj); rhs != nil {
						ks = constsOf(rhs)
					}
				}
			}
			for _, k := range ks {
				out = append(out, roleUse{k, factsOf(s), n.Pos()})
			}
		}
		switch x := n.(type) {
		case *ast.AssignStmt:
			for i, l := range x.Lhs {
				if ie, ok := astx.Unparen(l).(*ast.IndexExpr); ok && isHTTPHeader(info.TypeOf(ie.X)) && i < len(x.Rhs) {
					record(ie.Index, x.Rhs[i])
				}
			}
		case *ast.ExprStmt:
			if call, ok := x.X.(*ast.CallExpr); ok {
				if f := astx.CalleeFunc(info, call); f != nil && (f.Name() == "Set" || f.Name() == "Add") && astx.TypeIs(recvType(f), "net/http", "Header") && len(call.Args) == 2 {
					record(call.Args[0], call.Args[1])
				}
			}
		}
		return false
	}
	w.Walk()
	return out
}

// headerReadsInto finds `v := X.Header.Get(K)` style reads and returns for variable obj the constants (with facts).
func headerReadsOfVar(p *core.Program, info *types.Info, fd *ast.FuncDecl, at ast.Node, e ast.Expr) []roleUse {
	var out []roleUse
	e = astx.Unparen(e)
	astx.ForEachPathTo(info, fd.Body, at, func(s *astx.State) {
		var src ast.Expr = e
		if obj := astx.ObjOf(info, e); obj != nil {
			if rhs := s.LastAssigned(info, obj); rhs != nil {
				src = astx.Unparen(rhs)
			}
		}
		if call, ok := src.(*ast.CallExpr); ok && len(call.Args) == 1 {
			if f := astx.CalleeFunc(info, call); f != nil && f.Name() == "Get" && astx.TypeIs(recvType(f), "net/http", "Header") {
				if cst := s.ConstObjOnPath(info, call.Args[0]); cst != nil {
					out = append(out, roleUse{cst, factsOf(s), call.Pos()})
				}
			}
		}
	})
	return out
}

func pickConsts(info *types.Info, uses []roleUse, env astx.Env) string {
	set := map[string]bool{}
	for _, u := range uses {
		if feasible(info, u.facts, env) {
			set[u.cst.Name()] = true
		}
	}
	var names []string
	for k := range set {
		names = append(names, k)
	}
	sortStrings(names)
	return strings.Join(names, "|")
}

func sortStrings(s []string) {
	for i := 1; i < len(s); i++ {
		for j := i; j > 0 && s[j] < s[j-1]; j-- {
			s[j], s[j-1] = s[j-1], s[j]
		}
	}
}

func compressionRoles(c *core.Ctx) {
	p := c.P
	info := p.Connect.TypesInfo
	n := 0
	for _, nh := range implementationsOf(p, "protocol", "NewHandler") {
		pname := astx.RecvNamed(nh).Obj().Name()
		hs := builtStruct(info, p.Decl(nh))
		ncFn := p.Func(core.ConnectPath, pname+".NewClient")
		if hs == nil || ncFn == nil || p.Decl(ncFn) == nil {
			c.Unresolved(pname, "handler/client structs not resolved")
			continue
		}
		cs := builtStruct(info, p.Decl(ncFn))
		hNew, wrh := fn(p, hs.Obj().Name()+".NewConn"), fn(p, cs.Obj().Name()+".WriteRequestHeader")
		if hNew == nil || wrh == nil {
			c.Unresolved(pname+"/methods", "NewConn / WriteRequestHeader not found")
			continue
		}
		n++
		// handler side: arguments of negotiateCompression
		var neg *ast.CallExpr
		for _, call := range astx.Calls(hNew.Body) {
			if f := astx.CalleeFunc(info, call); f != nil && f.Name() == "negotiateCompression" {
				neg = call
			}
		}
		if neg == nil || len(neg.Args) != 3 {
			c.Violation(pname+"/negotiation", hNew.Pos(), "%s does not call negotiateCompression(pools, sent, accept)", core.FuncName(hNew))
			continue
		}
		sentReads := headerReadsOfVar(p, info, hNew, neg, neg.Args[1])
		acceptReads := headerReadsOfVar(p, info, hNew, neg, neg.Args[2])
		respVar := resultObj(info, hNew.Body, neg, 1)
		reqVar := resultObj(info, hNew.Body, neg, 0)
		// client side
		acceptWrites := headerWritesWhere(p, info, wrh, func(v ast.Expr) bool {
			found := false
			ast.Inspect(v, func(x ast.Node) bool {
				if call, ok := x.(*ast.CallExpr); ok && isMethodNamed(info, call, "CommaSeparatedNames") {
					found = true
				}
				if id, ok := x.(*ast.Ident); ok {
					if obj := info.Uses[id]; obj != nil {
						// variable assigned from CommaSeparatedNames()
						ast.Inspect(wrh.Body, func(y ast.Node) bool {
							if as, ok := y.(*ast.AssignStmt); ok && len(as.Lhs) == 1 && len(as.Rhs) == 1 && astx.ObjOf(info, as.Lhs[0]) == obj {
								if call, ok := as.Rhs[0].(*ast.CallExpr); ok && isMethodNamed(info, call, "CommaSeparatedNames") {
									found = true
								}
							}
							return true
						})
					}
				}
				return true
			})
			return found
		})
		isCompName := func(v ast.Expr) bool {
			found := false
			ast.Inspect(v, func(x ast.Node) bool {
				if sel, ok := x.(*ast.SelectorExpr); ok {
					if f := astx.FieldOf(info, sel); f != nil && (f.Name() == "CompressionName" || f.Name() == "compressionName") {
						found = true
					}
				}
				return true
			})
			return found
		}
		sentWrites := headerWritesWhere(p, info, wrh, isCompName)
		// unary Connect names its request compression when the marshaler actually compressed
		clientConns := connTypesBuiltIn(p, info, fn(p, cs.Obj().Name()+".NewConn"))
		handlerConns := connTypesBuiltIn(p, info, hNew)
		marshalWrites := func(conns map[string]astx.DNF) []roleUse {
			var out []roleUse
			for ct, dnf := range conns {
				for _, t := range callTree(p, info, []*ast.FuncDecl{fn(p, ct+".Send")}, 2) {
					for _, u := range headerWritesWhere(p, info, t, isCompName) {
						for _, conj := range dnf {
							out = append(out, roleUse{u.cst, conj, u.pos})
						}
					}
				}
			}
			return out
		}
		sentWrites = append(sentWrites, marshalWrites(clientConns)...)
		// handler response: header written with the negotiated response compression
		respWrites := headerWritesWhere(p, info, hNew, func(v ast.Expr) bool { return respVar != nil && astx.Mentions(info, v, respVar) })
		respWrites = append(respWrites, marshalWrites(handlerConns)...)
		// client response: header read to select the reader's pool
		var respReads []roleUse
		for ct, dnf := range clientConns {
			vr := fn(p, ct+".validateResponse")
			if vr == nil {
				continue
			}
			ast.Inspect(vr.Body, func(x ast.Node) bool {
				as, ok := x.(*ast.AssignStmt)
				if !ok || len(as.Lhs) != 1 || len(as.Rhs) != 1 || !astx.IsFieldNamed(info, as.Lhs[0], "compressionPool") {
					return true
				}
				if call, ok := as.Rhs[0].(*ast.CallExpr); ok && isMethodNamed(info, call, "Get") && len(call.Args) == 1 {
					for _, u := range headerReadsOfVar(p, info, vr, as, call.Args[0]) {
						for _, conj := range dnf {
							respReads = append(respReads, roleUse{u.cst, append(append([]astx.Cond{}, u.facts...), conj...), u.pos})
						}
					}
				}
				return true
			})
		}
		var probs []string
		for st := int64(0); st <= 3; st++ {
			env := discriminatorEnv(p, info, st, false)
			a1, a2 := pickConsts(info, acceptWrites, env), pickConsts(info, acceptReads, env)
			s1, s2 := pickConsts(info, sentWrites, env), pickConsts(info, sentReads, env)
			r1, r2 := pickConsts(info, respWrites, env), pickConsts(info, respReads, env)
			if a1 == "" || a1 != a2 {
				probs = append(probs, fmt.Sprintf("streamType=%d: client advertises in [%s], handler negotiates from [%s]", st, a1, a2))
			}
			if s1 == "" || s1 != s2 {
				probs = append(probs, fmt.Sprintf("streamType=%d: client names its send compression in [%s], handler reads [%s]", st, s1, s2))
			}
			if r1 == "" || r1 != r2 {
				probs = append(probs, fmt.Sprintf("streamType=%d: handler names its response compression in [%s], client reads [%s]", st, r1, r2))
			}
		}
		c.Check(len(probs) == 0, pname+"/roles", hNew.Pos(), "accept-list, send-compression and response-compression headers agree between client and handler in all 4 stream-type configurations%s", joinProblems(probs))

		// same negotiated value selects the writer pool and the reader pool
		okWriter, okReader := 0, 0
		badW, badR := 0, 0
		ast.Inspect(hNew.Body, func(x ast.Node) bool {
			kv, ok := x.(*ast.KeyValueExpr)
			if !ok {
				return true
			}
			f, _ := astx.ObjOf(info, kv.Key).(*types.Var)
			if f == nil || f.Name() != "compressionPool" {
				return true
			}
			call, ok := astx.Unparen(kv.Value).(*ast.CallExpr)
			if !ok || !isMethodNamed(info, call, "Get") || len(call.Args) != 1 {
				return true
			}
			// which literal? writer-side types contain "arshaler"/"Writer" and not "Unmarshaler"/"Reader"
			arg := astx.ObjOf(info, call.Args[0])
			lit := enclosingLiteralType(info, hNew.Body, kv)
			isReader := strings.Contains(lit, "Reader") || strings.Contains(lit, "Unmarshaler")
			if isReader {
				if arg == reqVar {
					okReader++
				} else {
					badR++
				}
			} else {
				if arg == respVar {
					okWriter++
				} else {
					badW++
				}
			}
			return true
		})
		c.Check(okWriter > 0 && okReader > 0 && badW == 0 && badR == 0, pname+"/pool-selection", hNew.Pos(),
			"writer pools come from the negotiated response compression (%d, %d wrong), reader pools from the negotiated request compression (%d, %d wrong)", okWriter, badW, okReader, badR)
		// the compressionName handed to unary marshalers equals the negotiated response compression
		ast.Inspect(hNew.Body, func(x ast.Node) bool {
			if kv, ok := x.(*ast.KeyValueExpr); ok {
				if f, _ := astx.ObjOf(info, kv.Key).(*types.Var); f != nil && f.Name() == "compressionName" {
					c.Check(astx.ObjOf(info, kv.Value) == respVar, pname+"/unary-name", kv.Pos(), "the unary marshaler's compressionName is the negotiated response compression")
				}
			}
			return true
		})
	}
	c.Floor("protocols", n, 2)
}

func enclosingLiteralType(info *types.Info, body ast.Node, inner ast.Node) string {
	name := ""
	ast.Inspect(body, func(x ast.Node) bool {
		if lit, ok := x.(*ast.CompositeLit); ok && astx.Contains(lit, inner) {
			if t := astx.NamedOf(info.TypeOf(lit)); t != nil {
				name = t.Obj().Name() // innermost wins (visited last)
			}
		}
		return true
	})
	return name
}

func clientEncodingValidated(c *core.Ctx) {
	p := c.P
	info := p.Connect.TypesInfo
	// validators: functions containing the rejection pattern for a header constant
	type validator struct {
		fd  *ast.FuncDecl
		cst *types.Const
	}
	var validators []validator
	// sameValue: the expression is the variable comp, or another read of the same header of the same
	// message (Header.Get is a pure read: a second local holding response.Header.Get(<same constant>)
	// holds the same string)
	headerKeyOf := func(fd *ast.FuncDecl, e ast.Expr) string {
		e = astx.Unparen(e)
		if id, ok := e.(*ast.Ident); ok {
			if def := soleDefinition(info, fd.Body, astx.ObjOf(info, id)); def != nil {
				e = astx.Unparen(def)
			}
		}
		if call, ok := e.(*ast.CallExpr); ok && len(call.Args) == 1 {
			if f := astx.CalleeFunc(info, call); f != nil && f.Name() == "Get" && astx.TypeIs(recvType(f), "net/http", "Header") {
				if cst := astx.ConstObj(info, call.Args[0]); cst != nil {
					if sel, ok := call.Fun.(*ast.SelectorExpr); ok {
						return astx.CanonKey(info, sel.X) + "[" + cst.Name() + "]"
					}
				}
			}
		}
		return ""
	}
	isValidatedPath := func(fd *ast.FuncDecl, conj []astx.Cond, comp types.Object) bool {
		compKey := ""
		if def := soleDefinition(info, fd.Body, comp); def != nil {
			compKey = headerKeyOf(fd, def)
		}
		same := func(e ast.Expr) bool {
			if astx.ObjOf(info, e) == comp {
				return true
			}
			return compKey != "" && headerKeyOf(fd, e) == compKey
		}
		for _, f := range conj {
			e := astx.Unparen(f.Expr)
			if call, ok := e.(*ast.CallExpr); ok && isMethodNamed(info, call, "Contains") && len(call.Args) == 1 && same(call.Args[0]) && f.Pol {
				return true
			}
			if l, op, r, ok := astx.CompareOp(e); ok && same(l) {
				if s, isC := astx.ConstString(info, r); isC && (s == "" || s == "identity") && (op == token.EQL) == f.Pol {
					return true
				}
			}
		}
		return false
	}
	sites := 0
	for _, fd := range p.AllFuncDecls(p.Connect) {
		// rejection sites: return errorf(...) under Contains(comp) false
		for _, ret := range astx.Returns(fd.Body) {
			dnf, _ := astx.PathConditions(info, fd.Body, ret)
			for _, conj := range dnf {
				for _, f := range conj {
					call, ok := astx.Unparen(f.Expr).(*ast.CallExpr)
					if !ok || !isMethodNamed(info, call, "Contains") || f.Pol || len(call.Args) != 1 {
						continue
					}
					n := astx.RecvNamed(astx.CalleeFunc(info, call))
					if n == nil || n.Obj().Name() != "readOnlyCompressionPools" {
						continue
					}
					if !strings.Contains(core.FuncName(fd), "alidateResponse") {
						continue
					}
					for _, u := range headerReadsOfVar(p, info, fd, ret, call.Args[0]) {
						validators = append(validators, validator{fd, u.cst})
					}
					// the rejection must be coded and list the supported names - unless the response is a non-200
					// one, which is reported by its HTTP status (its body cannot be read at all)
					good := false
					if len(ret.Results) == 1 {
						res := astx.Unparen(ret.Results[0])
						// a variable: what was assigned to it last before this return (by the statement order of the
						// block, e.g. `err = errorf(…); …; return err` left behind by an inlined helper)
						if obj := astx.ObjOf(info, res); obj != nil {
							if best := assignedBefore(info, fd.Body, ret, obj); best != nil {
								res = astx.Unparen(best)
							}
						}
						if ec, ok := res.(*ast.CallExpr); ok {
							for _, inner := range astx.Calls(ec) {
								if isMethodNamed(info, inner, "CommaSeparatedNames") {
									good = true
								}
								if tf := astx.CalleeFunc(info, inner); tf != nil && (tf.Name() == "connectHTTPToCode" || tf.Name() == "grpcHTTPToCode") {
									for _, sf := range conj {
										l, op, r, isCmp := astx.CompareOp(sf.Expr)
										if isCmp && astx.IsFieldNamed(info, l, "StatusCode") {
											if v, isC := astx.ConstInt(info, r); isC && v == 200 && (op == token.NEQ) == sf.Pol {
												good = true
											}
										}
									}
								}
							}
						}
					}
					c.Check(good, "reject/"+core.FuncName(fd), ret.Pos(), "unknown response encoding is rejected with a coded error listing CommaSeparatedNames()")
				}
			}
		}
	}
	for _, fd := range p.AllFuncDecls(p.Connect) {
		if !strings.Contains(core.FuncName(fd), "alidateResponse") {
			continue
		}
		ast.Inspect(fd.Body, func(x ast.Node) bool {
			as, ok := x.(*ast.AssignStmt)
			if !ok || len(as.Lhs) != 1 || len(as.Rhs) != 1 || !astx.IsFieldNamed(info, as.Lhs[0], "compressionPool") {
				return true
			}
			call, ok := as.Rhs[0].(*ast.CallExpr)
			if !ok || !isMethodNamed(info, call, "Get") || len(call.Args) != 1 {
				return true
			}
			sites++
			key := "assign/" + core.FuncName(fd)
			comp := astx.ObjOf(info, call.Args[0])
			reads := headerReadsOfVar(p, info, fd, as, call.Args[0])
			dnf, trunc := astx.PathConditions(info, fd.Body, as)
			if trunc || len(dnf) == 0 || len(reads) == 0 {
				c.Undecided(key, as.Pos(), "paths=%d header reads=%d", len(dnf), len(reads))
				return true
			}
			ok2 := true
			for _, conj := range dnf {
				if isValidatedPath(fd, conj, comp) {
					continue
				}
				// delegated: a call to a validator of the same header constant returned nil on this path
				delegated := false
				for _, v := range validators {
					if v.fd == fd || v.cst != reads[0].cst {
						continue
					}
					for _, vcall := range astx.Calls(fd.Body) {
						if astx.CalleeFunc(info, vcall) != info.Defs[v.fd.Name] {
							continue
						}
						errObj := resultObj(info, fd.Body, vcall, 0)
						for _, f := range conj {
							if l, op, r, ok := astx.CompareOp(f.Expr); ok && astx.IsNil(info, r) && astx.ObjOf(info, l) == errObj && (op == token.EQL) == f.Pol {
								delegated = true
							}
						}
					}
				}
				if !delegated {
					ok2 = false
				}
			}
			c.Check(ok2, key, as.Pos(), "reader pool = pools.Get(%s) only after %s was validated (empty, identity or Contains) on every path", types.ExprString(call.Args[0]), reads[0].cst.Name())
			return true
		})
	}
	c.Floor("client pool assignments", sites, 3)
}

func poolHygiene(c *core.Ctx) {
	p := c.P
	info := p.Connect.TypesInfo
	cp := p.Named(core.ConnectPath, "compressionPool")
	if cp == nil {
		c.Unresolved("compressionPool", "type not found")
		return
	}
	// the helpers that take a (de)compressor out of a sync.Pool and that put one back, whatever they are
	// called and whether they are methods of compressionPool or functions over the *sync.Pool: a get
	// helper returns a Compressor / Decompressor and calls Pool.Get (never Put); a put helper has a
	// Compressor / Decompressor parameter and calls Pool.Put
	isCodecIface := func(t types.Type) bool {
		nt := astx.NamedOf(t)
		return nt != nil && nt.Obj().Pkg() == p.Connect.Types && (nt.Obj().Name() == "Compressor" || nt.Obj().Name() == "Decompressor")
	}
	var hasPoolCallAt func(fd *ast.FuncDecl, name string, depth int) bool
	hasPoolCallAt = func(fd *ast.FuncDecl, name string, depth int) bool {
		for _, call := range astx.CallsDeep(fd.Body) {
			f := astx.CalleeFunc(info, call)
			if f == nil {
				continue
			}
			if f.Name() == name && astx.TypeIs(recvType(f), "sync", "Pool") {
				return true
			}
			// through a first-party helper (a generic getPooled[T](pool *sync.Pool))
			if depth < 2 && f.Pkg() == p.Connect.Types {
				g := f
				if g.Origin() != nil {
					g = g.Origin()
				}
				if hd := p.Decl(g); hd != nil && hd != fd && hd.Body != nil && hasPoolCallAt(hd, name, depth+1) {
					return true
				}
			}
		}
		return false
	}
	hasPoolCall := func(fd *ast.FuncDecl, name string) bool { return hasPoolCallAt(fd, name, 0) }
	getHelpers, putHelpers := map[*types.Func]bool{}, map[*types.Func]bool{}
	var putHelperDecls []*ast.FuncDecl
	for _, fd := range p.AllFuncDecls(p.Connect) {
		f := funcOf(info, fd)
		if f == nil {
			continue
		}
		sig := f.Type().(*types.Signature)
		returnsCodec, takesCodec := false, false
		for i := 0; i < sig.Results().Len(); i++ {
			if isCodecIface(sig.Results().At(i).Type()) {
				returnsCodec = true
			}
		}
		for i := 0; i < sig.Params().Len(); i++ {
			if isCodecIface(sig.Params().At(i).Type()) {
				takesCodec = true
			}
		}
		if returnsCodec && hasPoolCall(fd, "Get") && !hasPoolCall(fd, "Put") {
			getHelpers[f] = true
		}
		if takesCodec && hasPoolCall(fd, "Put") && !hasPoolCall(fd, "Get") {
			putHelpers[f] = true
			putHelperDecls = append(putHelperDecls, fd)
		}
	}
	isPoolOp := func(call *ast.CallExpr) (string, bool) {
		f := astx.CalleeFunc(info, call)
		if f == nil || !astx.TypeIs(recvType(f), "sync", "Pool") {
			return "", false
		}
		sel, ok := call.Fun.(*ast.SelectorExpr)
		if !ok {
			return "", false
		}
		// `(&c.compressors).Put(x)` is what inlining a helper over a *sync.Pool parameter leaves
		recv := astx.Unparen(sel.X)
		if u, isAddr := recv.(*ast.UnaryExpr); isAddr && u.Op == token.AND {
			recv = astx.Unparen(u.X)
		}
		fld := astx.FieldOf(info, recv)
		if fld == nil {
			return "", false
		}
		return fld.Name() + "." + f.Name(), true
	}
	// poolGetExpr recognises "take an object out of pool field F and assert its type": `x.F.Get().(T)`, or a
	// call of a first-party helper handed `&x.F` whose body does the Get on that parameter (a generic
	// getPooled[T](pool *sync.Pool) (T, bool))
	var poolGetBody ast.Node // the function being looked at: `v := x.F.Get(); … v.(T)` is resolved in it
	poolGetExpr := func(e ast.Expr) (string, bool) {
		e = astx.Unparen(e)
		if ta, ok := e.(*ast.TypeAssertExpr); ok {
			src := astx.Unparen(ta.X)
			if o := astx.ObjOf(info, src); o != nil && poolGetBody != nil {
				if def := soleDefinition(info, poolGetBody, o); def != nil {
					src = astx.Unparen(def)
				}
			}
			if call, ok := src.(*ast.CallExpr); ok {
				if op, isOp := isPoolOp(call); isOp && strings.HasSuffix(op, ".Get") {
					return op, true
				}
			}
			return "", false
		}
		call, ok := e.(*ast.CallExpr)
		if !ok || len(call.Args) != 1 {
			return "", false
		}
		ue, ok := astx.Unparen(call.Args[0]).(*ast.UnaryExpr)
		if !ok || ue.Op != token.AND || !astx.TypeIs(info.TypeOf(ue.X), "sync", "Pool") {
			return "", false
		}
		fld := astx.FieldOf(info, ue.X)
		f := astx.CalleeFunc(info, call)
		if fld == nil || f == nil {
			return "", false
		}
		if f.Origin() != nil {
			f = f.Origin()
		}
		hd := p.Decl(f)
		if hd == nil || p.PkgOf(hd) != p.Connect {
			return "", false
		}
		gets := 0
		for _, inner := range astx.CallsDeep(hd.Body) {
			if g := astx.CalleeFunc(info, inner); g != nil && g.Name() == "Get" && astx.TypeIs(recvType(g), "sync", "Pool") {
				gets++
			}
			if g := astx.CalleeFunc(info, inner); g != nil && g.Name() == "Put" && astx.TypeIs(recvType(g), "sync", "Pool") {
				return "", false
			}
		}
		if gets != 1 {
			return "", false
		}
		return fld.Name() + ".Get", true
	}
	// who may call
	for _, fd := range p.AllFuncDecls(p.Connect) {
		for _, call := range astx.CallsDeep(fd.Body) {
			op, ok := isPoolOp(call)
			if !ok || !(strings.HasPrefix(op, "decompressors.") || strings.HasPrefix(op, "compressors.")) {
				continue
			}
			owner := false
			if rn := astx.RecvNamed(funcOf(info, fd)); rn != nil && rn.Obj() == cp.Obj() {
				owner = true
			}
			if strings.HasPrefix(p.StoodInFor(fd), cp.Obj().Name()+".") {
				owner = true // one of its methods, now spelled as a function taking the pool
			}
			c.Check(owner, "who-may-call/"+core.FuncName(fd)+"/"+op, call.Pos(), "sync.Pool %s is used in %s (only compressionPool's own methods may touch the (de)compressor pools)", op, core.FuncName(fd))
		}
	}
	// wherever an object is taken out of a (de)compressor pool it is Reset onto the caller's
	// reader/writer exactly once before it is used or handed out
	getSites := 0
	for _, fd := range p.AllFuncDecls(p.Connect) {
		var getAssign *ast.AssignStmt
		poolGetBody = fd.Body
		ast.Inspect(fd.Body, func(x ast.Node) bool {
			as, ok := x.(*ast.AssignStmt)
			if !ok || len(as.Rhs) != 1 {
				return true
			}
			if op, isGet := poolGetExpr(as.Rhs[0]); isGet && (strings.HasPrefix(op, "decompressors.") || strings.HasPrefix(op, "compressors.")) {
				getAssign = as
			}
			return true
		})
		if getAssign == nil {
			continue
		}
		getSites++
		name := core.FuncName(fd)
		obj := astx.ObjOf(info, getAssign.Lhs[0])
		var okObj types.Object
		if len(getAssign.Lhs) == 2 {
			okObj = astx.ObjOf(info, getAssign.Lhs[1])
		}
		var probs []string
		n := 0
		astx.ForEachExit(info, fd.Body, func(s *astx.State, kind astx.ExitKind, ret *ast.ReturnStmt) {
			at := -1
			for i, st := range s.Steps {
				if st == ast.Node(getAssign) {
					at = i
				}
			}
			if at < 0 {
				return
			}
			if okObj != nil && !s.TookBranch(func(e ast.Expr, pol bool) bool { return astx.ObjOf(info, e) == okObj && pol }) {
				return // the object was of the wrong type: nothing was handed out
			}
			n++
			// the first call on the object after the Get is Reset(<something of the caller>)
			first := ""
			resets := 0
			for _, st := range s.Steps[at+1:] {
				for _, call := range astx.Calls(st) {
					sel, ok := call.Fun.(*ast.SelectorExpr)
					if !ok || astx.ObjOf(info, sel.X) != obj {
						continue
					}
					if first == "" {
						first = sel.Sel.Name
					}
					if sel.Sel.Name == "Reset" && len(call.Args) == 1 {
						resets++
					}
				}
			}
			if first != "Reset" {
				probs = append(probs, fmt.Sprintf("a path uses the pooled object (first %q) before it was Reset onto the new source/sink", first))
			}
		})
		c.Check(len(probs) == 0 && n > 0, "get/"+name, fd.Pos(), "%s: %d path(s) on which a pooled object is taken, each Reset onto the caller's reader/writer before use%s", name, n, joinProblems(probs))
	}
	c.Floor("functions that take objects out of the (de)compressor pools", getSites, 2)
	// put*: Close; on error return without Put; Reset then Put
	sort.Slice(putHelperDecls, func(i, j int) bool { return core.FuncName(putHelperDecls[i]) < core.FuncName(putHelperDecls[j]) })
	for _, fd := range putHelperDecls {
		name := fd.Name.Name
		// the pooled object: the interface-typed parameter (the pool itself may have become a leading
		// parameter when the method was turned into a function)
		var obj types.Object
		for _, fl := range fd.Type.Params.List {
			for _, nm := range fl.Names {
				if o := info.Defs[nm]; o != nil && obj == nil && types.IsInterface(o.Type()) {
					obj = o
				}
			}
		}
		if obj == nil {
			c.Undecided("put/"+name, fd.Pos(), "no interface-typed parameter (the object being recycled)")
			continue
		}
		var probs []string
		puts := 0
		astx.ForEachExit(info, fd.Body, func(s *astx.State, kind astx.ExitKind, ret *ast.ReturnStmt) {
			var order []string
			for _, st := range s.Steps {
				for _, call := range astx.Calls(st) {
					if sel, ok := call.Fun.(*ast.SelectorExpr); ok && astx.ObjOf(info, sel.X) == obj {
						order = append(order, sel.Sel.Name)
					}
					if op, ok := isPoolOp(call); ok && strings.HasSuffix(op, ".Put") {
						order = append(order, "Pool.Put")
					}
				}
			}
			seq := strings.Join(order, ",")
			closeFailed := s.HasFact(func(e ast.Expr, pol bool) bool {
				l, op, r, ok := astx.CompareOp(e)
				return ok && astx.IsNil(info, r) && (op == token.NEQ) == pol && types.Identical(info.TypeOf(l), types.Universe.Lookup("error").Type())
			})
			switch {
			case closeFailed:
				if strings.Contains(seq, "Pool.Put") {
					probs = append(probs, "an object whose Close failed is put back into the pool")
				}
			default:
				if seq != "Close,Reset,Pool.Put" {
					probs = append(probs, "recycling sequence is "+seq+", expected Close, Reset, Pool.Put")
				} else {
					puts++
				}
			}
		})
		c.Check(len(probs) == 0 && puts > 0, "put/"+name, fd.Pos(), "recycles with Close, Reset, Pool.Put and drops objects whose Close failed%s", joinProblems(probs))
	}
	// Compress / Decompress: exactly one put after a successful get on every path
	for _, name := range []string{"Compress", "Decompress"} {
		fd := fn(p, "compressionPool."+name)
		if fd == nil {
			c.Unresolved(name, "not found")
			continue
		}
		var probs []string
		n := 0
		getCounter := newCallCounter(p, info, func(call *ast.CallExpr) bool {
			if op, ok := isPoolOp(call); ok && strings.HasSuffix(op, ".Get") {
				return true // taken directly (the get helper was folded into this function)
			}
			if _, isGet := poolGetExpr(call); isGet {
				return true // a generic helper handed the address of the pool field
			}
			f := astx.CalleeFunc(info, call)
			return f != nil && getHelpers[f]
		})
		putCounter := newCallCounter(p, info, func(call *ast.CallExpr) bool {
			if op, ok := isPoolOp(call); ok && strings.HasSuffix(op, ".Put") {
				return true
			}
			f := astx.CalleeFunc(info, call)
			return f != nil && putHelpers[f]
		})
		astx.ForEachExit(info, fd.Body, func(s *astx.State, kind astx.ExitKind, ret *ast.ReturnStmt) {
			getsLo, getsHi := getCounter.ofState(s, ret, 2)
			putsLo, putsHi := putCounter.ofState(s, ret, 2)
			getFailed := false
			// the path returned right after a failed get (err != nil of the get)
			for gi, st := range s.Steps {
				// the get helper folded into this function: the Reset onto the caller's source right after the
				// Get is part of the get, and its failure is the get's failure (the object is dropped)
				if as, ok := st.(*ast.AssignStmt); ok && len(as.Lhs) == len(as.Rhs) && gi > 0 {
					for ri, r := range as.Rhs {
						rc, isCall := astx.Unparen(r).(*ast.CallExpr)
						if !isCall || !isMethodNamed(info, rc, "Reset") || len(rc.Args) != 1 {
							continue
						}
						if t := info.TypeOf(rc); t == nil || !types.Identical(t, types.Universe.Lookup("error").Type()) {
							continue
						}
						// directly after the pool's Get on this path
						afterGet := false
						for _, prev := range s.Steps[:gi] {
							for _, pc := range astx.Calls(prev) {
								if op, isOp := isPoolOp(pc); isOp && strings.HasSuffix(op, ".Get") {
									afterGet = true
								}
								if op, isOp := isPoolOp(pc); isOp && strings.HasSuffix(op, ".Put") {
									afterGet = false
								}
							}
						}
						errObj := astx.ObjOf(info, as.Lhs[ri])
						if !afterGet || errObj == nil {
							continue
						}
						next := len(s.Steps) + 1
						for j := gi + 1; j < len(s.Steps); j++ {
							if as2, ok := s.Steps[j].(*ast.AssignStmt); ok {
								for _, l := range as2.Lhs {
									if astx.ObjOf(info, l) == errObj && j < next {
										next = j
									}
								}
							}
						}
						for _, tf := range s.Taken {
							l, op, rr, ok := astx.CompareOp(tf.Expr)
							if ok && tf.At > gi && tf.At <= next && astx.IsNil(info, rr) && astx.ObjOf(info, l) == errObj && (op == token.NEQ) == tf.Pol {
								getFailed = true
							}
						}
					}
				}
				if as, ok := st.(*ast.AssignStmt); ok && len(as.Rhs) == 1 && len(as.Lhs) == 2 {
					// taken directly from the pool: the type assertion's ok plays the role of the get's error
					if ta, isTA := astx.Unparen(as.Rhs[0]).(*ast.TypeAssertExpr); isTA {
						if pc, isCall := astx.Unparen(ta.X).(*ast.CallExpr); isCall {
							if op, isOp := isPoolOp(pc); isOp && strings.HasSuffix(op, ".Get") {
								okObj := astx.ObjOf(info, as.Lhs[1])
								if s.TookBranch(func(e ast.Expr, pol bool) bool { return astx.ObjOf(info, e) == okObj && !pol }) {
									getFailed = true
								}
							}
						}
					}
					if call, ok := as.Rhs[0].(*ast.CallExpr); ok {
						if f := astx.CalleeFunc(info, call); f != nil && getHelpers[f] {
							errObj := astx.ObjOf(info, as.Lhs[1])
							// the test of the get's own error: taken after the get and before err is assigned again
							next := len(s.Steps) + 1
							for j := gi + 1; j < len(s.Steps); j++ {
								if as2, ok := s.Steps[j].(*ast.AssignStmt); ok {
									for _, l := range as2.Lhs {
										if astx.ObjOf(info, l) == errObj && j < next {
											next = j
										}
									}
								}
							}
							for _, tf := range s.Taken {
								l, op, r, ok := astx.CompareOp(tf.Expr)
								if ok && tf.At > gi && tf.At <= next && astx.IsNil(info, r) && astx.ObjOf(info, l) == errObj && (op == token.NEQ) == tf.Pol {
									getFailed = true
								}
							}
						}
					}
				}
			}
			n++
			if getsLo != 1 || getsHi != 1 {
				probs = append(probs, fmt.Sprintf("%d..%d get calls on one path", getsLo, getsHi))
			}
			if getFailed && putsHi != 0 {
				probs = append(probs, "an object whose get (Reset) failed is handed to put, which Closes and pools it: a decompressor that never saw a valid header is not usable")
			}
			// the put helper folded into this function: a path on which the object's Close failed drops it
			// (no Put) - that is the helper's own contract, checked above
			closeFailed := false
			for gi, st := range s.Steps {
				var as *ast.AssignStmt
				switch x := st.(type) {
				case *ast.AssignStmt:
					as = x
				}
				if as == nil || len(as.Rhs) != 1 || len(as.Lhs) != 1 {
					continue
				}
				call, ok := astx.Unparen(as.Rhs[0]).(*ast.CallExpr)
				if !ok || !isMethodNamed(info, call, "Close") || len(call.Args) != 0 {
					continue
				}
				errObj := astx.ObjOf(info, as.Lhs[0])
				for _, tf := range s.Taken {
					l, op, r, ok := astx.CompareOp(tf.Expr)
					if ok && tf.At > gi && astx.IsNil(info, r) && errObj != nil && astx.ObjOf(info, l) == errObj && (op == token.NEQ) == tf.Pol {
						closeFailed = true
					}
				}
			}
			if closeFailed && putsLo == 0 && putsHi == 0 {
				return
			}
			if !getFailed && (putsLo != 1 || putsHi != 1) {
				probs = append(probs, fmt.Sprintf("a path after a successful get passes %d..%d put calls, helpers included (the object leaks or is pooled twice)", putsLo, putsHi))
			}
		})
		c.Check(len(probs) == 0 && n > 0, "pairing/"+name, fd.Pos(), "%d exit(s): one get, and exactly one put unless the get itself failed%s", n, joinProblems(probs))
	}
	// bufferPool.Put: Reset dominates Pool.Put; cap test uses Cap()
	if fd := fn(p, "bufferPool.Put"); fd == nil {
		c.Unresolved("bufferPool.Put", "not found")
	} else {
		buf := info.Defs[fd.Type.Params.List[0].Names[0]]
		var probs []string
		pooled := 0
		astx.ForEachExit(info, fd.Body, func(s *astx.State, kind astx.ExitKind, ret *ast.ReturnStmt) {
			reset := false
			for _, st := range s.Steps {
				for _, call := range astx.Calls(st) {
					if sel, ok := call.Fun.(*ast.SelectorExpr); ok && sel.Sel.Name == "Reset" && astx.ObjOf(info, sel.X) == buf {
						reset = true
					}
					if f := astx.CalleeFunc(info, call); f != nil && f.Name() == "Put" && astx.TypeIs(recvType(f), "sync", "Pool") {
						pooled++
						if !reset {
							probs = append(probs, "a buffer is pooled without Reset: the next user would see the previous call's bytes")
						}
					}
				}
			}
		})
		usesCap := false
		ast.Inspect(fd.Body, func(x ast.Node) bool {
			if call, ok := x.(*ast.CallExpr); ok {
				if sel, ok := call.Fun.(*ast.SelectorExpr); ok && sel.Sel.Name == "Cap" && astx.ObjOf(info, sel.X) == buf {
					usesCap = true
				}
			}
			return true
		})
		c.Check(len(probs) == 0 && pooled > 0 && usesCap, "bufferPool.Put", fd.Pos(), "Reset before Pool.Put on every pooling path; the recycle cap tests Cap() (%v)%s", usesCap, joinProblems(probs))
	}
}

func preferenceOrder(c *core.Ctx) {
	p := c.P
	info := p.Connect.TypesInfo
	fd := fn(p, "newReadOnlyCompressionPools")
	if fd == nil {
		c.Unresolved("newReadOnlyCompressionPools", "not found")
		return
	}
	loops := loopsIn(fd.Body)
	param := info.Defs[fd.Type.Params.List[1].Names[0]]
	outer := fd
	if len(loops) == 0 {
		// the loop may live in a helper that receives the registration list
		for _, call := range astx.Calls(fd.Body) {
			f := astx.CalleeFunc(info, call)
			if f == nil || p.Decl(f) == nil || p.PkgOf(p.Decl(f)) != p.Connect {
				continue
			}
			for i, a := range call.Args {
				if astx.ObjOf(info, a) == param {
					helper := p.Decl(f)
					if ls := loopsIn(helper.Body); len(ls) == 1 {
						fd, loops = helper, ls
						param = paramObjAt(info, helper, i)
					}
				}
			}
		}
	}
	if len(loops) != 1 {
		c.Undecided("loop", fd.Pos(), "expected one loop over the registration list, found %d", len(loops))
		return
	}
	dir, slice, isElem, body := loopOver(info, loops[0])
	c.Check(dir == dirDesc && astx.ObjOf(info, slice) == param, "direction", loops[0].Pos(), "names are taken from the registration list %s (last registered first)", dir)
	// append(names, elem) guarded by !seen
	var app *ast.AssignStmt
	ast.Inspect(body, func(x ast.Node) bool {
		if as, ok := x.(*ast.AssignStmt); ok && len(as.Rhs) == 1 {
			if call, ok := as.Rhs[0].(*ast.CallExpr); ok {
				if b, ok := astx.Callee(info, call).(*types.Builtin); ok && b.Name() == "append" && len(call.Args) == 2 && isElem != nil && isElem(call.Args[1]) {
					app = as
				}
			}
		}
		return true
	})
	if app == nil {
		c.Violation("append", loops[0].Pos(), "the loop does not append the element to the name list")
	} else {
		dnf, _ := astx.PathConditions(info, fd.Body, app)
		dedup := len(dnf) > 0
		for _, conj := range dnf {
			seenFalse := false
			for _, f := range conj {
				if id, ok := astx.Unparen(f.Expr).(*ast.Ident); ok && !f.Pol && types.Identical(info.TypeOf(id), types.Typ[types.Bool]) {
					seenFalse = true
				}
			}
			dedup = dedup && seenFalse
		}
		c.Check(dedup, "dedup", app.Pos(), "a name is appended only when it was not seen before")
	}
	// the joined list is what CommaSeparatedNames returns
	joined := false
	for _, call := range astx.Calls(outer.Body) {
		if astx.IsPkgFunc(astx.Callee(info, call), "strings", "Join") {
			if s, ok := astx.ConstString(info, call.Args[1]); ok && s == "," {
				joined = true
			}
		}
	}
	c.Check(joined, "join", fd.Pos(), "the ordered names are joined with \",\"")

	// clientConfig.validate
	vfd := fn(p, "clientConfig.validate")
	if vfd == nil {
		c.Unresolved("clientConfig.validate", "not found")
		return
	}
	var probs []string
	astx.ForEachExit(info, vfd.Body, func(s *astx.State, kind astx.ExitKind, ret *ast.ReturnStmt) {
		if ret == nil || len(ret.Results) != 1 || !astx.IsNil(info, ret.Results[0]) {
			return
		}
		okPath := false
		for _, f := range s.Facts {
			e := astx.Unparen(f.Expr)
			if l, op, r, ok := astx.CompareOp(e); ok && astx.IsFieldNamed(info, l, "RequestCompressionName") {
				if v, isC := astx.ConstString(info, r); isC && (v == "" || v == "identity") && (op == token.EQL) == f.Pol {
					okPath = true
				}
			}
			// the comma-ok of the lookup in the registered pools, whatever it is called
			if o := astx.ObjOf(info, e); o != nil && f.Pol {
				for _, st := range s.Steps {
					if as, isAs := st.(*ast.AssignStmt); isAs && len(as.Lhs) == 2 && len(as.Rhs) == 1 && astx.ObjOf(info, as.Lhs[1]) == o {
						if ie, isIdx := astx.Unparen(as.Rhs[0]).(*ast.IndexExpr); isIdx && astx.IsFieldNamed(info, ie.X, "CompressionPools") && astx.IsFieldNamed(info, ie.Index, "RequestCompressionName") {
							okPath = true
						}
					}
				}
			}
		}
		if !okPath {
			probs = append(probs, "validate succeeds although a non-identity send compression was not found among the registered pools")
		}
	})
	c.Check(len(probs) == 0, "client-send-compression-validated", vfd.Pos(), "client construction fails for an unregistered send compression%s", joinProblems(probs))
}

// ---------------------------------------------------------------------------

func boundedRead(c *core.Ctx) {
	p := c.P
	info := p.Connect.TypesInfo
	// (1) length-prefixed: envelopeReader.Read
	fd := fn(p, "envelopeReader.Read")
	if fd == nil {
		c.Unresolved("envelopeReader.Read", "not found")
	} else {
		var sizeObj types.Object
		ast.Inspect(fd.Body, func(x ast.Node) bool {
			if as, ok := x.(*ast.AssignStmt); ok && len(as.Lhs) == len(as.Rhs) {
				// (also as one position of a parallel assignment)
				for i, r := range as.Rhs {
					found := false
					for _, call := range astx.Calls(r) {
						if f := astx.CalleeFunc(info, call); f != nil && f.Name() == "Uint32" {
							found = true
						}
					}
					if found {
						sizeObj = astx.ObjOf(info, as.Lhs[i])
					}
				}
			}
			return true
		})
		if sizeObj == nil {
			c.Undecided("envelope/size", fd.Pos(), "decoded length variable not found")
		} else {
			env := func(max, size int64) astx.Env {
				return astx.Env{Int: func(e ast.Expr) (int64, bool) {
					if astx.IsFieldNamed(info, e, "readMaxBytes") {
						return max, true
					}
					if astx.ObjOf(info, e) == sizeObj {
						return size, true
					}
					return 0, false
				}}
			}
			keep := func(cd astx.Cond) bool {
				return astx.Mentions(info, cd.Expr, sizeObj) || mentionsField(info, cd.Expr, "readMaxBytes")
			}
			sinks := 0
			for _, call := range astx.Calls(fd.Body) {
				f := astx.CalleeFunc(info, call)
				if f == nil {
					continue
				}
				isGrow := f.Name() == "Grow" && astx.TypeIs(recvType(f), "bytes", "Buffer")
				isCopy := astx.IsPkgFunc(f, "io", "CopyN") && len(call.Args) == 3 && !astx.IsPkgVar(info, call.Args[0], "io", "Discard")
				if !isGrow && !isCopy {
					continue
				}
				sinks++
				key := fmt.Sprintf("envelope/%s", f.Name())
				dnf, trunc := astx.PathConditions(info, fd.Body, call)
				if trunc || len(dnf) == 0 {
					c.Undecided(key, call.Pos(), "no path condition")
					continue
				}
				at, e1 := dnf.Eval(info, env(100, 100), keep, nil)
				over, e2 := dnf.Eval(info, env(100, 101), keep, nil)
				unl, e3 := dnf.Eval(info, env(0, 1<<30), keep, nil)
				if e1 != nil || e2 != nil || e3 != nil {
					c.Undecided(key, call.Pos(), "guards not decidable: %v %v %v", e1, e2, e3)
					continue
				}
				c.Check(at && !over && unl, key, call.Pos(), "with limit 100: size 100 reaches %s: %v (want true), size 101: %v (want false); without limit a large size is read: %v", f.Name(), at, over, unl)
			}
			c.Floor("envelope reader sinks (Grow, CopyN into the buffer)", sinks, 2)
			// the rejecting branch: returns non-nil, and the only consumption is a discard
			var probs []string
			rejecting := 0
			astx.ForEachExit(info, fd.Body, func(s *astx.State, kind astx.ExitKind, ret *ast.ReturnStmt) {
				var facts []astx.Cond
				for _, f := range s.Facts {
					facts = append(facts, astx.Cond{Expr: f.Expr, Pol: f.Pol})
				}
				ok, err := (astx.DNF{facts}).Eval(info, env(100, 101), keep, nil)
				if err != nil || !ok {
					return
				}
				// only consider exits after the size was decoded
				if !s.AnyStep(func(n ast.Node) bool {
					as, ok := n.(*ast.AssignStmt)
					if !ok {
						return false
					}
					for _, l := range as.Lhs {
						if astx.ObjOf(info, l) == sizeObj {
							return true
						}
					}
					return false
				}) {
					return
				}
				rejecting++
				if ret == nil || len(ret.Results) != 1 || astx.IsNil(info, ret.Results[0]) {
					probs = append(probs, "an over-limit path returns nil")
				}
			})
			c.Check(len(probs) == 0 && rejecting > 0, "envelope/reject", fd.Pos(), "%d over-limit exit(s), all returning a non-nil error%s", rejecting, joinProblems(probs))
		}
	}
	// (2) stream-style: readers through LimitReader(max+1) and a count check before decode
	for _, spec := range []struct{ fn, decode string }{{"connectUnaryUnmarshaler.UnmarshalFunc", "unmarshal"}, {"compressionPool.Decompress", ""}} {
		fd := fn(p, spec.fn)
		if fd == nil {
			c.Unresolved(spec.fn, "not found")
			continue
		}
		var readFrom *ast.CallExpr
		for _, call := range astx.Calls(fd.Body) {
			if f := astx.CalleeFunc(info, call); f != nil && f.Name() == "ReadFrom" && astx.TypeIs(recvType(f), "bytes", "Buffer") {
				readFrom = call
			}
		}
		if readFrom == nil {
			c.Violation(spec.fn+"/ReadFrom", fd.Pos(), "no bytes.Buffer.ReadFrom: the body is not read through the bounded path")
			continue
		}
		countObj := resultObj(info, fd.Body, readFrom, 0)
		isMax := func(e ast.Expr) bool {
			if astx.IsFieldNamed(info, e, "readMaxBytes") {
				return true
			}
			// the limit handed in as a parameter (whatever it is called): an int64 parameter of this function
			if id, ok := e.(*ast.Ident); ok {
				if obj := info.Uses[id]; obj != nil {
					if _, isParam := paramOf(info, fd, obj); isParam {
						if b, isBasic := obj.Type().Underlying().(*types.Basic); isBasic && b.Kind() == types.Int64 {
							return true
						}
					}
				}
			}
			return false
		}
		env := func(max, count int64) astx.Env {
			return astx.Env{Int: func(e ast.Expr) (int64, bool) {
				if isMax(e) {
					return max, true
				}
				if countObj != nil && astx.ObjOf(info, e) == countObj {
					return count, true
				}
				return 0, false
			}}
		}
		keep := func(cd astx.Cond) bool {
			m := false
			ast.Inspect(cd.Expr, func(x ast.Node) bool {
				if e, ok := x.(ast.Expr); ok && isMax(e) {
					m = true
				}
				return true
			})
			return m || (countObj != nil && astx.Mentions(info, cd.Expr, countObj))
		}
		// reader argument on paths with max > 0
		var probs []string
		limited := 0
		astx.ForEachPathTo(info, fd.Body, readFrom, func(s *astx.State) {
			var facts []astx.Cond
			for _, f := range s.Facts {
				facts = append(facts, astx.Cond{Expr: f.Expr, Pol: f.Pol})
			}
			ok, err := (astx.DNF{facts}).Eval(info, env(100, 0), keep, nil)
			if err != nil {
				probs = append(probs, "limit guard not decidable: "+err.Error())
				return
			}
			if !ok {
				return // path infeasible for max = 100
			}
			arg := astx.Unparen(readFrom.Args[0])
			if obj := astx.ObjOf(info, arg); obj != nil {
				if rhs := s.LastAssigned(info, obj); rhs != nil {
					arg = astx.Unparen(rhs)
				}
			}
			lc, isCall := arg.(*ast.CallExpr)
			if !isCall || !astx.IsPkgFunc(astx.Callee(info, lc), "io", "LimitReader") || len(lc.Args) != 2 {
				probs = append(probs, "with a limit configured the bytes are read from "+types.ExprString(arg)+", not from io.LimitReader(src, N+1)")
				return
			}
			n, err := astx.EvalInt(info, lc.Args[1], env(100, 0), nil)
			if err != nil || n != 101 {
				probs = append(probs, fmt.Sprintf("LimitReader bound for N=100 is %d (err %v), must be N+1 so that N+1 bytes are detectable and nothing more is buffered", n, err))
				return
			}
			limited++
		})
		// N = MaxInt64: N+1 would wrap negative and LimitReader would return EOF at once; the path
		// that computes N+1 must be infeasible for that N
		astx.ForEachPathTo(info, fd.Body, readFrom, func(s *astx.State) {
			var facts []astx.Cond
			for _, f := range s.Facts {
				facts = append(facts, astx.Cond{Expr: f.Expr, Pol: f.Pol})
			}
			ok, err := (astx.DNF{facts}).Eval(info, env(math.MaxInt64, 0), keep, nil)
			if err != nil || !ok {
				return
			}
			arg := astx.Unparen(readFrom.Args[0])
			if obj := astx.ObjOf(info, arg); obj != nil {
				if rhs := s.LastAssigned(info, obj); rhs != nil {
					arg = astx.Unparen(rhs)
				}
			}
			if lc, isCall := arg.(*ast.CallExpr); isCall && astx.IsPkgFunc(astx.Callee(info, lc), "io", "LimitReader") && len(lc.Args) == 2 {
				if n, err := astx.EvalInt(info, lc.Args[1], env(math.MaxInt64, 0), nil); err == nil && n <= 0 {
					probs = append(probs, "for N = MaxInt64 the LimitReader bound N+1 wraps to a negative number: nothing is read and every message arrives empty")
				}
			}
		})
		c.Check(len(probs) == 0 && limited > 0, spec.fn+"/limit-reader", readFrom.Pos(), "whenever N > 0 the buffer is filled through io.LimitReader(src, N+1), and never with a wrapped bound for N = MaxInt64 (%d path(s))%s", limited, joinProblems(probs))
		// success exits / decode sites need count <= max
		var targets []ast.Node
		if spec.decode != "" {
			for _, call := range astx.Calls(fd.Body) {
				// the decode step is the call of the function-typed parameter (whatever it is called)
				if id, ok := call.Fun.(*ast.Ident); ok {
					if obj := info.Uses[id]; obj != nil {
						if _, isParam := paramOf(info, fd, obj); isParam {
							if _, isFunc := obj.Type().Underlying().(*types.Signature); isFunc {
								targets = append(targets, call)
							}
						}
					}
				}
			}
		} else {
			for _, ret := range astx.Returns(fd.Body) {
				if len(ret.Results) == 1 && astx.IsNil(info, ret.Results[0]) {
					targets = append(targets, ret)
				}
			}
			// also the put on the success path is fine; success = return nil
		}
		if len(targets) == 0 {
			c.Undecided(spec.fn+"/decode-site", fd.Pos(), "no decode call / success return found")
			continue
		}
		for i, t := range targets {
			dnf, trunc := astx.PathConditions(info, fd.Body, t)
			if trunc || len(dnf) == 0 {
				c.Undecided(fmt.Sprintf("%s/count-check#%d", spec.fn, i), t.Pos(), "no path condition")
				continue
			}
			at, e1 := dnf.Eval(info, env(100, 100), keep, nil)
			over, e2 := dnf.Eval(info, env(100, 101), keep, nil)
			unl, e3 := dnf.Eval(info, env(0, 1<<30), keep, nil)
			if e1 != nil || e2 != nil || e3 != nil {
				c.Undecided(fmt.Sprintf("%s/count-check#%d", spec.fn, i), t.Pos(), "guards not decidable: %v %v %v", e1, e2, e3)
				continue
			}
			c.Check(at && !over && unl, fmt.Sprintf("%s/count-check#%d", spec.fn, i), t.Pos(), "with limit 100: 100 bytes pass (%v, want true), 101 bytes are rejected before this point (reached=%v, want false); unlimited reads pass (%v)", at, over, unl)
		}
	}
}

func mentionsField(info *types.Info, e ast.Expr, name string) bool {
	m := false
	ast.Inspect(e, func(x ast.Node) bool {
		if ex, ok := x.(ast.Expr); ok && astx.IsFieldNamed(info, ex, name) {
			m = true
		}
		return true
	})
	return m
}

func limitWiring(c *core.Ctx) {
	p := c.P
	info := p.Connect.TypesInfo
	wired := map[string]string{"readMaxBytes": "ReadMaxBytes", "compressMinBytes": "CompressMinBytes", "bufferPool": "BufferPool"}
	lits := 0
	var roots []*types.Func
	roots = append(roots, implementationsOf(p, "protocolHandler", "NewConn")...)
	roots = append(roots, implementationsOf(p, "protocolClient", "NewConn")...)
	for _, m := range roots {
		fd := p.Decl(m)
		ast.Inspect(fd.Body, func(x ast.Node) bool {
			lit, ok := x.(*ast.CompositeLit)
			if !ok {
				return true
			}
			t := astx.NamedOf(info.TypeOf(lit))
			if t == nil || t.Obj().Pkg() == nil || t.Obj().Pkg().Path() != core.ConnectPath {
				return true
			}
			st, ok := t.Underlying().(*types.Struct)
			if !ok {
				return true
			}
			for i := 0; i < st.NumFields(); i++ {
				fname := st.Field(i).Name()
				src, need := wired[fname]
				if !need {
					continue
				}
				// conn structs themselves carry bufferPool too; fine
				lits++
				key := fmt.Sprintf("literal/%s/%s.%s", core.FuncName(fd), t.Obj().Name(), fname)
				var val ast.Expr
				for _, el := range lit.Elts {
					if kv, ok := el.(*ast.KeyValueExpr); ok && astx.ObjOf(info, kv.Key) == st.Field(i) {
						val = kv.Value
					}
				}
				if val == nil {
					c.Violation(key, lit.Pos(), "%s literal leaves %s at its zero value (limit/threshold/pool not forwarded)", t.Obj().Name(), fname)
					continue
				}
				f := astx.FieldOf(info, val)
				c.Check(f != nil && f.Name() == src, key, val.Pos(), "%s.%s = %s (expected the params' %s)", t.Obj().Name(), fname, types.ExprString(val), src)
			}
			return true
		})
	}
	c.Floor("wired fields in NewConn literals", lits, 12)
	// readers built anywhere else decode what the peer sent instead of a message (the JSON body of a
	// unary error): the application's per-message limit does not apply to them - an error body cut by
	// it loses the server's code and the client falls back to guessing from the HTTP status
	isRoot := map[*ast.FuncDecl]bool{}
	for _, m := range roots {
		isRoot[p.Decl(m)] = true
	}
	others := 0
	for _, fd := range p.AllFuncDecls(p.Connect) {
		if isRoot[fd] {
			continue
		}
		ast.Inspect(fd.Body, func(x ast.Node) bool {
			lit, ok := x.(*ast.CompositeLit)
			if !ok {
				return true
			}
			t := astx.NamedOf(info.TypeOf(lit))
			if t == nil || t.Obj().Pkg() == nil || t.Obj().Pkg().Path() != core.ConnectPath {
				return true
			}
			st, ok := t.Underlying().(*types.Struct)
			if !ok {
				return true
			}
			for i := 0; i < st.NumFields(); i++ {
				if st.Field(i).Name() != "readMaxBytes" {
					continue
				}
				others++
				var val ast.Expr
				for _, el := range lit.Elts {
					if kv, ok := el.(*ast.KeyValueExpr); ok && astx.ObjOf(info, kv.Key) == st.Field(i) {
						val = kv.Value
					}
				}
				zero := val == nil
				if v, isC := astx.ConstInt(info, val); val != nil && isC && v == 0 {
					zero = true
				}
				c.Check(zero, fmt.Sprintf("error-body/%s/%s", core.FuncName(fd), t.Obj().Name()), lit.Pos(), "%s builds a %s outside NewConn (for the peer's error body) without a message-size limit", core.FuncName(fd), t.Obj().Name())
			}
			return true
		})
	}
	c.Floor("readers built outside NewConn", others, 1)

	// params literals are filled from the config fields of the same name
	pl := 0
	for _, fd := range p.AllFuncDecls(p.Connect) {
		ast.Inspect(fd.Body, func(x ast.Node) bool {
			lit, ok := x.(*ast.CompositeLit)
			if !ok {
				return true
			}
			t := astx.NamedOf(info.TypeOf(lit))
			if t == nil || !(t.Obj().Name() == "protocolHandlerParams" || t.Obj().Name() == "protocolClientParams") {
				return true
			}
			for _, want := range []string{"ReadMaxBytes", "CompressMinBytes", "BufferPool"} {
				pl++
				key := fmt.Sprintf("params/%s/%s", core.FuncName(fd), want)
				var val ast.Expr
				for _, el := range lit.Elts {
					if kv, ok := el.(*ast.KeyValueExpr); ok {
						if id, ok := kv.Key.(*ast.Ident); ok && id.Name == want {
							val = kv.Value
						}
					}
				}
				f := (*types.Var)(nil)
				if val != nil {
					f = astx.FieldOf(info, val)
				}
				c.Check(f != nil && f.Name() == want, key, lit.Pos(), "%s.%s is filled from the config field of the same name", t.Obj().Name(), want)
			}
			return true
		})
	}
	c.Floor("params fields", pl, 6)
	// options store into those config fields
	for _, spec := range []struct{ typ, src, dst string }{{"readMaxBytesOption", "Max", "ReadMaxBytes"}, {"compressMinBytesOption", "Min", "CompressMinBytes"}} {
		for _, m := range []string{"applyToClient", "applyToHandler"} {
			fd := fn(p, spec.typ+"."+m)
			if fd == nil {
				c.Unresolved(spec.typ+"."+m, "not found")
				continue
			}
			ok := false
			ast.Inspect(fd.Body, func(x ast.Node) bool {
				if as, ok2 := x.(*ast.AssignStmt); ok2 && len(as.Lhs) == 1 && len(as.Rhs) == 1 && astx.IsFieldNamed(info, as.Lhs[0], spec.dst) && astx.IsFieldNamed(info, as.Rhs[0], spec.src) {
					ok = true
				}
				return true
			})
			c.Check(ok, "option/"+spec.typ+"."+m, fd.Pos(), "config.%s = o.%s", spec.dst, spec.src)
		}
	}
	// Decompress call sites pass their own reader's limit
	dn := 0
	for _, fd := range p.AllFuncDecls(p.Connect) {
		for _, call := range astx.Calls(fd.Body) {
			if !isMethodNamed(info, call, "Decompress") || len(call.Args) != 3 {
				continue
			}
			if n := astx.RecvNamed(astx.CalleeFunc(info, call)); n == nil || n.Obj().Name() != "compressionPool" {
				continue
			}
			dn++
			arg := astx.StripConv(info, call.Args[2])
			recv := recvObj(info, fd)
			sel, ok := astx.Unparen(arg).(*ast.SelectorExpr)
			c.Check(ok && sel.Sel.Name == "readMaxBytes" && astx.ObjOf(info, sel.X) == recv, "decompress-limit/"+core.FuncName(fd), call.Pos(), "Decompress is limited by this reader's own readMaxBytes (got %s)", types.ExprString(call.Args[2]))
		}
	}
	c.Floor("Decompress call sites", dn, 2)
}

func paramObjAt(info *types.Info, fd *ast.FuncDecl, idx int) types.Object {
	i := 0
	for _, f := range fd.Type.Params.List {
		for _, n := range f.Names {
			if i == idx {
				return info.Defs[n]
			}
			i++
		}
	}
	return nil
}

// tokenizerSplitsOn evaluates the predicate handed to strings.FieldsFunc for ',', ' ' and a letter:
// it must cut at commas and blanks and nowhere inside a name. Returns "" when it does.
func tokenizerSplitsOn(p *core.Program, info *types.Info, pred ast.Expr) string {
	var body *ast.BlockStmt
	var param types.Object
	switch x := astx.Unparen(pred).(type) {
	case *ast.FuncLit:
		body = x.Body
		if len(x.Type.Params.List) == 1 && len(x.Type.Params.List[0].Names) == 1 {
			param = info.Defs[x.Type.Params.List[0].Names[0]]
		}
	default:
		if f, ok := astx.ObjOf(info, pred).(*types.Func); ok {
			if fd := p.Decl(f); fd != nil && len(fd.Type.Params.List) == 1 && len(fd.Type.Params.List[0].Names) == 1 {
				body = fd.Body
				param = info.Defs[fd.Type.Params.List[0].Names[0]]
			}
		}
	}
	if body == nil || param == nil {
		return "predicate not resolved"
	}
	for _, tc := range []struct {
		r    rune
		want bool
	}{{',', true}, {' ', true}, {'a', false}, {'z', false}, {'-', false}, {'0', false}} {
		env := astx.Env{Int: func(e ast.Expr) (int64, bool) {
			if astx.ObjOf(info, e) == param {
				return int64(tc.r), true
			}
			return 0, false
		}}
		// the value returned on the path(s) that are feasible for this rune
		results := map[bool]bool{}
		problem := ""
		astx.ForEachExit(info, body, func(s *astx.State, kind astx.ExitKind, ret *ast.ReturnStmt) {
			if ret == nil || len(ret.Results) != 1 {
				problem = "predicate has an exit without a result"
				return
			}
			for _, f := range s.Facts {
				b, err := astx.EvalBool(info, f.Expr, env, nil)
				if err != nil {
					problem = "predicate not decidable: " + err.Error()
					return
				}
				if b != f.Pol {
					return // path not taken for this rune
				}
			}
			got, err := astx.EvalBool(info, ret.Results[0], env, nil)
			if err != nil {
				problem = "predicate not decidable: " + err.Error()
				return
			}
			results[got] = true
		})
		if problem != "" {
			return problem
		}
		if len(results) != 1 || !results[tc.want] {
			return fmt.Sprintf("predicate(%q) is not %v", tc.r, tc.want)
		}
	}
	return ""
}

// negotiateByReturns checks negotiateCompression exit by exit, tracing the returned values back
// along the path (used when the results are not named variables): request = identity, or the sent
// name under Contains(sent); response = the request value, or the first element of the client's
// list for which Contains held; rejection only for a named, non-identity, unsupported request.
func negotiateByReturns(c *core.Ctx, p *core.Program, info *types.Info, fd *ast.FuncDecl, sent, accept *types.Var,
	acceptElem func(ast.Expr) (string, bool), unimpl int64) {
	type val struct{ kind, key string }
	resolve := func(s *astx.State, e ast.Expr) val {
		for depth := 0; depth < 8; depth++ {
			e = astx.Unparen(e)
			if cst := astx.ConstObj(info, e); cst != nil {
				if v, ok := astx.ConstString(info, e); ok && v == "identity" {
					return val{"identity", ""}
				}
			}
			if v, ok := astx.ConstString(info, e); ok && v == "" {
				return val{"empty", ""}
			}
			if astx.ObjOf(info, e) == types.Object(sent) {
				return val{"sent", ""}
			}
			if k, ok := acceptElem(e); ok {
				return val{"elem", k}
			}
			obj := astx.ObjOf(info, e)
			if obj == nil {
				return val{"other", types.ExprString(e)}
			}
			rhs := s.LastAssigned(info, obj)
			if rhs == nil {
				return val{"other", types.ExprString(e)}
			}
			e = rhs
		}
		return val{"other", "?"}
	}
	containsFact := func(s *astx.State, match func(arg ast.Expr) bool, want bool) bool {
		for _, f := range s.Facts {
			if call, ok := astx.Unparen(f.Expr).(*ast.CallExpr); ok && isMethodNamed(info, call, "Contains") && len(call.Args) == 1 && match(call.Args[0]) && f.Pol == want {
				return true
			}
		}
		return false
	}
	var probs []string
	okExits, errExits := 0, 0
	wk := astx.NewWalker(info, fd.Body)
	wk.MaxVisits = 3
	wk.OnExit = func(s *astx.State, kind astx.ExitKind, ret *ast.ReturnStmt) {
		if ret == nil || len(ret.Results) != 3 {
			probs = append(probs, "exit without three explicit results")
			return
		}
		at := p.Pos(ret.Pos())
		if !astx.IsNil(info, ret.Results[2]) {
			errExits++
			call, ok := astx.Unparen(ret.Results[2]).(*ast.CallExpr)
			good := false
			if ok && len(call.Args) >= 1 {
				if v, isC := astx.ConstInt(info, call.Args[0]); isC && v == unimpl {
					for _, inner := range astx.Calls(call) {
						if isMethodNamed(info, inner, "CommaSeparatedNames") {
							good = true
						}
					}
				}
			}
			if !good {
				probs = append(probs, "the rejecting exit at "+at+" is not an unimplemented error listing CommaSeparatedNames()")
			}
			if !containsFact(s, func(a ast.Expr) bool { return astx.ObjOf(info, a) == types.Object(sent) }, false) {
				probs = append(probs, "the error exit at "+at+" is not the unsupported-compression branch")
			}
			notEmpty, notIdentity := false, false
			for _, f := range s.Facts {
				l, op, r, ok := astx.CompareOp(f.Expr)
				if !ok || astx.ObjOf(info, l) != types.Object(sent) {
					continue
				}
				if v, isC := astx.ConstString(info, r); isC && (op == token.NEQ) == f.Pol {
					switch v {
					case "":
						notEmpty = true
					case "identity":
						notIdentity = true
					}
				}
			}
			if !notEmpty || !notIdentity {
				probs = append(probs, "a request is rejected at "+at+" without having established sent != \"\" and sent != identity")
			}
			return
		}
		okExits++
		req, resp := resolve(s, ret.Results[0]), resolve(s, ret.Results[1])
		switch req.kind {
		case "identity":
		case "sent":
			if !containsFact(s, func(a ast.Expr) bool { return astx.ObjOf(info, a) == types.Object(sent) }, true) {
				probs = append(probs, "the exit at "+at+" adopts the sent compression without Contains(sent)")
			}
		default:
			probs = append(probs, "the exit at "+at+" returns a request compression from "+req.kind+" "+req.key)
		}
		switch resp.kind {
		case "identity", "sent":
			if resp.kind != req.kind {
				probs = append(probs, "the exit at "+at+" returns response compression "+resp.kind+" but request compression "+req.kind)
			}
		case "elem":
			if !containsFact(s, func(a ast.Expr) bool { return astx.CanonKey(info, a) == resp.key }, true) {
				probs = append(probs, "the exit at "+at+" adopts an accepted name without Contains(name)")
			}
			// first match: no earlier element on this path was supported
			if containsFactCount(info, s, resp.key) > 1 {
				probs = append(probs, "the exit at "+at+" adopts a later entry although an earlier one was supported")
			}
		default:
			probs = append(probs, "the exit at "+at+" returns a response compression from "+resp.kind+" "+resp.key)
		}
		if containsFact(s, func(a ast.Expr) bool { return astx.ObjOf(info, a) == types.Object(sent) }, false) {
			probs = append(probs, "success exit at "+at+" although the sent compression is not supported")
		}
	}
	wk.Walk()
	if wk.Truncated {
		c.Undecided("exits", fd.Pos(), "path enumeration truncated")
		return
	}
	uniq := map[string]bool{}
	var up []string
	for _, pr := range probs {
		if !uniq[pr] {
			uniq[pr] = true
			up = append(up, pr)
		}
	}
	c.Check(len(up) == 0 && okExits > 0 && errExits > 0, "exits", fd.Pos(), "%d success exit(s), %d rejecting exit(s), each returned value traced to identity / sent under Contains / first supported accepted name%s", okExits, errExits, joinProblems(up))
	_ = accept
}

// containsFactCount counts the Contains(<key>) == true branch outcomes on the path (two iterations
// of the accept loop that both found support mean a later entry replaced an earlier one).
func containsFactCount(info *types.Info, s *astx.State, key string) int {
	n := 0
	for _, f := range s.Taken {
		if call, ok := astx.Unparen(f.Expr).(*ast.CallExpr); ok && isMethodNamed(info, call, "Contains") && len(call.Args) == 1 && astx.CanonKey(info, call.Args[0]) == key && f.Pol {
			n++
		}
	}
	return n
}

package rules

import (
	"fmt"
	"go/ast"
	"go/types"

	"verif/checker/internal/astx"
	"verif/checker/internal/core"
)

func init() {
	register(&core.Rule{ID: "ctx-classifier-sees-raw-error", Run: ctxClassifierSeesRawError,
		Doc: "Every call of wrapIfContextError is handed a value whose static type is the error interface (a failure as the transport or a reader reported it), never a *Error: the classifier returns a coded error unchanged, so asking `asError(wrapIfContextError(e))` of a *Error answers yes for every failure and the fallback behind the question - the code inferred from the HTTP status of a non-200 unary response - becomes unreachable."})
	register(&core.Rule{ID: "gen-filename-clean", Run: genFilenameClean,
		Doc: "The generator computes the output file's name prefix with path.Join (or path.Clean): protoc refuses a response file whose name is not a clean relative path, and path.Dir of a .proto at the root of the tree is `.`, so plain concatenation or formatting yields `./<pkg>connect/<file>`."})
}

func ctxClassifierSeesRawError(c *core.Ctx) {
	p := c.P
	info := p.Connect.TypesInfo
	classifier := p.Func(core.ConnectPath, "wrapIfContextError")
	errNamed := p.Named(core.ConnectPath, "Error")
	if classifier == nil || errNamed == nil {
		c.Unresolved("wrapIfContextError", "classifier or Error type not found")
		return
	}
	sites, bad := 0, 0
	for _, fd := range p.AllFuncDecls(p.Connect) {
		for _, call := range astx.CallsDeep(fd.Body) {
			if astx.Callee(info, call) != types.Object(classifier) || len(call.Args) != 1 {
				continue
			}
			sites++
			t := info.TypeOf(call.Args[0])
			if t == nil {
				c.Undecided(fmt.Sprintf("arg/%s#%d", core.FuncName(fd), sites), call.Pos(), "argument has no type")
				continue
			}
			if ptr, isPtr := t.(*types.Pointer); isPtr && astx.NamedOf(ptr.Elem()) == errNamed {
				bad++
				c.Violation(fmt.Sprintf("arg/%s#%d", core.FuncName(fd), bad), call.Pos(),
					"%s classifies `%s`, which already is a *Error: the result is the argument itself, so a test of it for a coded error holds for every failure", core.FuncName(fd), types.ExprString(call.Args[0]))
			}
		}
	}
	c.Ok("inventory", p.Connect.Syntax[0].Pos(), "%d call(s) of wrapIfContextError, %d on a *Error", sites, bad)
	c.Floor("wrapIfContextError call sites", sites, 4)
}

func genFilenameClean(c *core.Ctx) {
	pkg, info := genPkg(c)
	if pkg == nil {
		return
	}
	isClean := func(e ast.Expr) bool {
		call, ok := astx.Unparen(e).(*ast.CallExpr)
		if !ok {
			return false
		}
		callee := astx.Callee(info, call)
		return astx.IsPkgFunc(callee, "path", "Join") || astx.IsPkgFunc(callee, "path", "Clean")
	}
	sites := 0
	for _, fd := range c.P.AllFuncDecls(pkg) {
		ast.Inspect(fd.Body, func(n ast.Node) bool {
			as, ok := n.(*ast.AssignStmt)
			if !ok || len(as.Lhs) != len(as.Rhs) {
				return true
			}
			for i, l := range as.Lhs {
				sel, isSel := astx.Unparen(l).(*ast.SelectorExpr)
				if !isSel || !astx.IsFieldNamed(info, sel, "GeneratedFilenamePrefix") {
					continue
				}
				sites++
				rhs := as.Rhs[i]
				// a local computed once stands for its defining expression
				if obj, isVar := astx.ObjOf(info, astx.Unparen(rhs)).(*types.Var); isVar && obj != nil && !obj.IsField() {
					var defs []ast.Expr
					ast.Inspect(fd.Body, func(m ast.Node) bool {
						if a2, ok := m.(*ast.AssignStmt); ok && len(a2.Lhs) == len(a2.Rhs) {
							for j, l2 := range a2.Lhs {
								if astx.ObjOf(info, l2) == types.Object(obj) {
									defs = append(defs, a2.Rhs[j])
								}
							}
						}
						return true
					})
					if len(defs) == 1 {
						rhs = defs[0]
					}
				}
				c.Check(isClean(rhs), fmt.Sprintf("prefix/%s#%d", core.FuncName(fd), sites), as.Pos(),
					"%s sets the generated file name prefix from %s (needs path.Join / path.Clean: the directory part may be `.`)", core.FuncName(fd), types.ExprString(rhs))
			}
			return true
		})
	}
	c.Floor("GeneratedFilenamePrefix assignments", sites, 1)
}

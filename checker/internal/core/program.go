// Package core loads /repo, and carries the reporting machinery shared by all rules.
package core

import (
	"fmt"
	"go/ast"
	"go/token"
	"go/types"
	"os"
	"sort"
	"strings"
	"sync"

	"golang.org/x/tools/go/packages"
	"golang.org/x/tools/go/ssa"
	"golang.org/x/tools/go/ssa/ssautil"
)

const (
	ConnectPath = "github.com/bufbuild/connect-go"
	GenPath     = ConnectPath + "/cmd/protoc-gen-connect-go"
	PingPBPath  = ConnectPath + "/internal/gen/connect/ping/v1"
	PingConPath = ConnectPath + "/internal/gen/connect/ping/v1/pingv1connect"
	ErrorPBPath = ConnectPath + "/internal/gen/connect/error/v1"
	StatusPath  = ConnectPath + "/internal/gen/connectext/grpc/status/v1"
)

// Program is the type-checked first-party program.
type Program struct {
	Repo    string
	Fset    *token.FileSet
	All     []*packages.Package // first-party packages, sorted by path
	ByPath  map[string]*packages.Package
	Connect *packages.Package
	Config  string // description of the build configuration analysed

	funcDecls map[*types.Func]*ast.FuncDecl
	declPkg   map[*ast.FuncDecl]*packages.Package
	hidden    map[*ast.FuncDecl]bool   // helpers that were inlined into all of their callers
	standIn   map[*ast.FuncDecl]string // function -> "T.m" of the inventory method it replaced
	opt       LoadOptions
	mutated   bool // some syntax tree was rewritten by the inliner
	overlay   map[string][]byte

	// Renamed lists "new->old" for declarations that were renamed back to their inventory name;
	// Substituted the hoisted locals that were replaced by their defining expression.
	Renamed     []string
	Substituted []string
	Notes       []string

	// InlinedHelpers lists the functions (absent from the baseline inventory) that were inlined.
	InlinedHelpers []string

	ssaOnce sync.Once
	SSAProg *ssa.Program
	ssaPkgs map[string]*ssa.Package

	Stats Stats
}

type Stats struct {
	Packages  int
	Files     int
	Functions int
	Lines     int
}

// LoadOptions selects the build configuration.
type LoadOptions struct {
	Tags   string
	GOARCH string
	Deep   bool // load syntax of dependencies too (whole-program SSA)
	// Baseline is the declaration inventory of the pinned tree (see baseline.go); nil: the tree
	// is analysed as written, without normalisation.
	Baseline *Baseline
}

// Load type-checks every package of the repository. Any load or type error is returned.
func Load(repo string, opt LoadOptions) (*Program, error) {
	p, err := load(repo, opt, token.NewFileSet(), nil)
	if err != nil || opt.Baseline == nil {
		return p, err
	}
	// renames: types, constants and variables first (function signatures and field owners mention type names)
	var renamed []string
	for _, kinds := range [][]string{{"type", "const", "var"}, {"func", "field"}} {
		ren := p.detectRenames(opt.Baseline, kinds...)
		if len(ren) == 0 {
			continue
		}
		q, err := load(repo, opt, token.NewFileSet(), p.renameOverlay(ren))
		if err != nil {
			// e.g. the old name is shadowed somewhere: analyse the tree as written
			p.Notes = append(p.Notes, fmt.Sprintf("rename normalisation skipped (%v)", err))
			break
		}
		for obj, old := range ren {
			renamed = append(renamed, obj.Name()+"->"+old)
		}
		p = q
	}
	sort.Strings(renamed)
	// functions of the inventory that gained a parameter they never use get their old signature back
	if overlay, notes := p.dropAddedParams(opt.Baseline); overlay != nil {
		q, err := load(repo, opt, token.NewFileSet(), overlay)
		if err != nil {
			p.Notes = append(p.Notes, fmt.Sprintf("unused-parameter normalisation skipped (%v)", err))
		} else {
			q.Notes = append(p.Notes, "signatures restored: "+strings.Join(notes, "; "))
			p = q
		}
	}
	// methods of the inventory that were turned into functions of their receiver become methods again
	if overlay, notes := p.remethod(opt.Baseline); overlay != nil {
		q, err := load(repo, opt, token.NewFileSet(), overlay)
		if err != nil {
			p.Notes = append(p.Notes, fmt.Sprintf("function->method normalisation skipped (%v)", err))
		} else {
			q.Notes = append(p.Notes, "methods again: "+strings.Join(notes, "; "))
			p = q
		}
	}
	// expression helpers of the inventory that are gone: their inlined copies become calls again
	if overlay, notes := p.reoutline(opt.Baseline); overlay != nil {
		q, err := load(repo, opt, token.NewFileSet(), overlay)
		if err != nil {
			p.Notes = append(p.Notes, fmt.Sprintf("vanished helpers not restored (%v)", err))
		} else {
			q.Notes = append(p.Notes, "restored: "+strings.Join(notes, "; "))
			p = q
		}
	}
	p.Renamed = renamed
	p.Normalise(opt.Baseline)
	p.InlineNewHelpers(opt.Baseline)
	p.installNilPreserving()
	return p, nil
}

func load(repo string, opt LoadOptions, fset *token.FileSet, overlay map[string][]byte) (*Program, error) {
	mode := packages.NeedName | packages.NeedFiles | packages.NeedCompiledGoFiles | packages.NeedImports |
		packages.NeedTypes | packages.NeedTypesSizes | packages.NeedSyntax | packages.NeedTypesInfo | packages.NeedDeps | packages.NeedModule
	env := append(os.Environ(), "GOFLAGS=-mod=mod", "GOPROXY=off", "GOSUMDB=off", "GOTOOLCHAIN=local", "GOWORK=off")
	if opt.GOARCH != "" {
		env = append(env, "GOARCH="+opt.GOARCH)
	}
	cfg := &packages.Config{Mode: mode, Dir: repo, Env: env, Tests: false, Fset: fset, Overlay: overlay}
	if opt.Tags != "" {
		cfg.BuildFlags = []string{"-tags=" + opt.Tags}
	}
	pkgs, err := packages.Load(cfg, "./...")
	if err != nil {
		return nil, fmt.Errorf("packages.Load: %w", err)
	}
	p := &Program{
		Repo: repo, Fset: cfg.Fset, ByPath: map[string]*packages.Package{},
		funcDecls: map[*types.Func]*ast.FuncDecl{}, declPkg: map[*ast.FuncDecl]*packages.Package{},
		hidden: map[*ast.FuncDecl]bool{}, opt: opt, overlay: overlay,
	}
	p.Config = fmt.Sprintf("GOARCH=%s tags=%q", firstNonEmpty(opt.GOARCH, "default"), opt.Tags)
	var errs []string
	for _, pkg := range pkgs {
		for _, e := range pkg.Errors {
			errs = append(errs, pkg.PkgPath+": "+e.Error())
		}
		if pkg.Module == nil || pkg.Module.Path != ConnectPath {
			continue
		}
		p.All = append(p.All, pkg)
		p.ByPath[pkg.PkgPath] = pkg
	}
	if len(errs) > 0 {
		return nil, fmt.Errorf("load/type errors: %s", strings.Join(errs, "; "))
	}
	sort.Slice(p.All, func(i, j int) bool { return p.All[i].PkgPath < p.All[j].PkgPath })
	if len(p.All) < 7 {
		return nil, fmt.Errorf("only %d first-party packages loaded (expected >= 7)", len(p.All))
	}
	p.Connect = p.ByPath[ConnectPath]
	if p.Connect == nil {
		return nil, fmt.Errorf("package %s not loaded", ConnectPath)
	}
	for _, pkg := range p.All {
		if pkg.Types == nil || pkg.TypesInfo == nil || len(pkg.Syntax) == 0 {
			return nil, fmt.Errorf("package %s has no syntax/types", pkg.PkgPath)
		}
		p.Stats.Packages++
		for _, f := range pkg.Syntax {
			p.Stats.Files++
			tf := p.Fset.File(f.Pos())
			if tf != nil {
				p.Stats.Lines += tf.LineCount()
			}
			for _, d := range f.Decls {
				if fd, ok := d.(*ast.FuncDecl); ok {
					p.Stats.Functions++
					if obj, ok := pkg.TypesInfo.Defs[fd.Name].(*types.Func); ok {
						p.funcDecls[obj] = fd
						p.declPkg[fd] = pkg
					}
				}
			}
		}
	}
	return p, nil
}

func firstNonEmpty(a, b string) string {
	if a != "" {
		return a
	}
	return b
}

// Pos renders a position relative to the repository root.
func (p *Program) Pos(pos token.Pos) string {
	if !pos.IsValid() {
		return "-"
	}
	position := p.Fset.Position(pos)
	name := strings.TrimPrefix(position.Filename, p.Repo+"/")
	return fmt.Sprintf("%s:%d", name, position.Line)
}

// Decl returns the declaration of a first-party function (origin of generics), or nil.
func (p *Program) Decl(fn *types.Func) *ast.FuncDecl {
	if fn == nil {
		return nil
	}
	return p.funcDecls[fn.Origin()]
}

// PkgOf returns the package a declaration lives in.
func (p *Program) PkgOf(fd *ast.FuncDecl) *packages.Package { return p.declPkg[fd] }

// Info returns the types.Info that covers the node at pos.
func (p *Program) InfoAt(pos token.Pos) *types.Info {
	for _, pkg := range p.All {
		for _, f := range pkg.Syntax {
			if f.Pos() <= pos && pos <= f.End() {
				return pkg.TypesInfo
			}
		}
	}
	return nil
}

// Func looks up a package-level function or a method ("T.m") of package pkgPath.
func (p *Program) Func(pkgPath, name string) *types.Func {
	pkg := p.ByPath[pkgPath]
	if pkg == nil {
		return nil
	}
	if i := strings.Index(name, "."); i >= 0 {
		tn, _ := pkg.Types.Scope().Lookup(name[:i]).(*types.TypeName)
		if tn == nil {
			return nil
		}
		named, _ := tn.Type().(*types.Named)
		if named == nil {
			return nil
		}
		for i2 := 0; i2 < named.NumMethods(); i2++ {
			if m := named.Method(i2); m.Name() == name[i+1:] {
				return m
			}
		}
		return nil
	}
	fn, _ := pkg.Types.Scope().Lookup(name).(*types.Func)
	return fn
}

// FuncDecl is Func + Decl. A method of the inventory that no longer exists resolves to the
// function it was turned into (see methodAlias).
func (p *Program) FuncDecl(pkgPath, name string) *ast.FuncDecl {
	if fd := p.Decl(p.Func(pkgPath, name)); fd != nil {
		return fd
	}
	return p.methodAlias(pkgPath, name)
}

// methodAlias: "T.m" is in the inventory but not in the tree, and exactly one function outside the
// inventory has m's parameters (after some leading ones that stand for the receiver or the fields
// it used), m's results and a name that contains m's name: the method was turned into a
// package-level function. Rules that analyse the body of T.m analyse that function.
func (p *Program) methodAlias(pkgPath, name string) *ast.FuncDecl {
	b := p.opt.Baseline
	pkg := p.ByPath[pkgPath]
	if b == nil || pkg == nil {
		return nil
	}
	dot := strings.Index(name, ".")
	if dot < 0 {
		return nil
	}
	want, ok := b.Decls["func"][pkgPath+"."+name]
	if !ok {
		return nil
	}
	want, _ = splitOrd(want)
	wantParams, wantResults := splitSig(want)
	var found *ast.FuncDecl
	n := 0
	for _, d := range p.declObjects() {
		if d.Kind != "func" || !strings.HasPrefix(d.Name, pkgPath+".") || b.HasFunc(d.Name) {
			continue
		}
		short := d.Name[len(pkgPath)+1:]
		if strings.Contains(short, ".") || !wordsInOrder(name[dot+1:], short) {
			continue
		}
		sig, _ := splitOrd(d.Type)
		params, results := splitSig(sig)
		if results != wantResults || len(params) < len(wantParams) {
			continue
		}
		match := true
		for i := range wantParams {
			if params[len(params)-len(wantParams)+i] != wantParams[i] {
				match = false
			}
		}
		if !match {
			continue
		}
		if f, ok := d.obj.(*types.Func); ok {
			if fd := p.Decl(f); fd != nil {
				found = fd
				n++
			}
		}
	}
	if n == 1 {
		return found
	}
	return nil
}

// splitSig splits "func(a, b) r" into parameter types and the result part.
func splitSig(sig string) ([]string, string) {
	sig = strings.TrimPrefix(sig, "func")
	depth, end := 0, -1
	for i, c := range sig {
		if c == '(' {
			depth++
		}
		if c == ')' {
			depth--
			if depth == 0 {
				end = i
				break
			}
		}
	}
	if end < 0 {
		return nil, sig
	}
	inner := sig[1:end]
	var params []string
	depth = 0
	start := 0
	for i, c := range inner {
		switch c {
		case '(', '[', '{':
			depth++
		case ')', ']', '}':
			depth--
		case ',':
			if depth == 0 {
				params = append(params, strings.TrimSpace(inner[start:i]))
				start = i + 1
			}
		}
	}
	if strings.TrimSpace(inner[start:]) != "" {
		params = append(params, strings.TrimSpace(inner[start:]))
	}
	return params, strings.TrimSpace(sig[end+1:])
}

// Named looks up a named type.
func (p *Program) Named(pkgPath, name string) *types.Named {
	pkg := p.ByPath[pkgPath]
	if pkg == nil {
		return nil
	}
	tn, _ := pkg.Types.Scope().Lookup(name).(*types.TypeName)
	if tn == nil {
		return nil
	}
	n, _ := tn.Type().(*types.Named)
	return n
}

// InInventory reports whether the pinned tree's inventory lists the declaration (kind: func, type,
// field, const, var; name package-qualified).
func (p *Program) InInventory(kind, name string) bool {
	if p == nil || p.opt.Baseline == nil {
		return true // without an inventory everything counts as known
	}
	_, ok := p.opt.Baseline.Decls[kind][name]
	return ok
}

// StoodInFor returns "T.m" when fd is the package-level function that a method of the inventory was
// turned into, else "".
func (p *Program) StoodInFor(fd *ast.FuncDecl) string { return p.standIn[fd] }

// AllFuncDecls iterates over the function declarations of a package in source order, without
// the helpers that were inlined into all of their callers.
func (p *Program) AllFuncDecls(pkg *packages.Package) []*ast.FuncDecl {
	var out []*ast.FuncDecl
	for _, fd := range p.AllFuncDeclsRaw(pkg) {
		if !p.hidden[fd] {
			out = append(out, fd)
		}
	}
	return out
}

// AllFuncDeclsRaw lists every function declaration with a body.
func (p *Program) AllFuncDeclsRaw(pkg *packages.Package) []*ast.FuncDecl {
	var out []*ast.FuncDecl
	for _, f := range pkg.Syntax {
		for _, d := range f.Decls {
			if fd, ok := d.(*ast.FuncDecl); ok && fd.Body != nil {
				out = append(out, fd)
			}
		}
	}
	return out
}

// FuncName renders pkg-qualified names like connect.(*envelopeReader).Read → "envelopeReader.Read".
func FuncName(fd *ast.FuncDecl) string {
	if fd.Recv != nil && len(fd.Recv.List) > 0 {
		t := fd.Recv.List[0].Type
		for {
			switch x := t.(type) {
			case *ast.StarExpr:
				t = x.X
				continue
			case *ast.IndexExpr:
				t = x.X
				continue
			case *ast.IndexListExpr:
				t = x.X
				continue
			case *ast.ParenExpr:
				t = x.X
				continue
			}
			break
		}
		if id, ok := t.(*ast.Ident); ok {
			return id.Name + "." + fd.Name.Name
		}
	}
	return fd.Name.Name
}

// SSA builds (once) SSA form for the first-party packages. Dependencies have no bodies.
// When helpers were inlined the syntax trees of p.All are no longer what the type checker saw, so
// the packages are loaded a second time (same FileSet, no inlining) and SSA is built from those:
// types of the SSA program are then distinct from p's, look names up in the ssa.Package.
func (p *Program) SSA() (*ssa.Program, map[string]*ssa.Package) {
	p.ssaOnce.Do(func() {
		initial := make([]*packages.Package, len(p.All))
		copy(initial, p.All)
		if p.mutated {
			opt := p.opt
			opt.Baseline = nil
			q, err := load(p.Repo, opt, p.Fset, p.overlay)
			if err != nil {
				return
			}
			copy(initial, q.All)
		}
		prog, pkgs := ssautil.Packages(initial, ssa.BuilderMode(0))
		prog.Build()
		p.SSAProg = prog
		p.ssaPkgs = map[string]*ssa.Package{}
		for i, sp := range pkgs {
			if sp != nil {
				p.ssaPkgs[initial[i].PkgPath] = sp
			}
		}
	})
	return p.SSAProg, p.ssaPkgs
}

// wordsInOrder: every camel-case word of want occurs in have, in order (writeResponseHeader in
// connectWriteUnaryResponseHeader).
func wordsInOrder(want, have string) bool {
	var words []string
	cur := ""
	for _, r := range want {
		if r >= 'A' && r <= 'Z' && cur != "" {
			words = append(words, cur)
			cur = ""
		}
		cur += strings.ToLower(string(r))
	}
	if cur != "" {
		words = append(words, cur)
	}
	h := strings.ToLower(have)
	at := 0
	all := len(words) > 0
	for _, w := range words {
		i := strings.Index(h[at:], w)
		if i < 0 {
			all = false
			break
		}
		at += i + len(w)
	}
	if all {
		return true
	}
	// or: the first word (at least four letters) is shared (chainWith -> chainInterceptors)
	return len(words) > 0 && len(words[0]) >= 4 && strings.Contains(h, words[0])
}

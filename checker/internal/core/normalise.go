package core

import (
	"go/ast"
	"go/constant"
	"go/token"
	"go/types"
	"sort"
	"strings"

	"golang.org/x/tools/go/ast/astutil"
	"golang.org/x/tools/go/packages"

	"verif/checker/internal/astx"
)

// Normalise rewrites behaviour-preserving variations into the shape of the pinned tree (see
// baseline.go):
//
//  1. a local variable that is defined once by a pure read expression which the inventory of its
//     function does not list (a hoisted repeated expression) is replaced, at each use, by that
//     expression, and its definition is dropped;
//  2. `len(s) == 0` style tests of a string become `s == ""` / `s != ""`;
//  3. a tagged switch over a tag the function's inventory does not list (an if-chain that was
//     turned into `switch x { case a, b: }`) becomes the tagless `switch { case x == a || x == b: }`.
func (p *Program) Normalise(b *Baseline) {
	for _, pkg := range p.All {
		n := &normaliser{p: p, pkg: pkg, info: pkg.TypesInfo, pure: map[*types.Func]int{}, base: b}
		n.in = &inliner{prog: p, pkg: pkg, info: pkg.TypesInfo}
		// a function outside the inventory holds code moved from elsewhere: any defining expression
		// of the package's inventory counts as known there
		union := map[string]bool{}
		for q, set := range b.Locals {
			if strings.HasPrefix(q, pkg.PkgPath+".") {
				for k := range set {
					union[k] = true
				}
			}
		}
		for _, fd := range p.AllFuncDeclsRaw(pkg) {
			q := pkg.PkgPath + "." + FuncName(fd)
			known := b.Locals[q]
			if !b.HasFunc(q) {
				known = union
			}
			n.canonNewConst(fd)
			n.canonConst(fd)
			n.canonShape(fd)
			for round := 0; round < 3; round++ {
				if !n.substituteLocals(fd, q, known) {
					break
				}
			}
			n.canonShape(fd)
			n.canonCompare(fd)
			n.canonLen(fd)
			n.canonMapLookup(fd)
			n.canonArrayTable(fd)
			tags := b.Tags[q]
			if !b.HasFunc(q) {
				tags = nil
				for fq, set := range b.Tags {
					if strings.HasPrefix(fq, pkg.PkgPath+".") {
						if tags == nil {
							tags = map[string]bool{}
						}
						for k := range set {
							tags[k] = true
						}
					}
				}
			}
			n.canonSwitch(fd, tags)
		}
	}
	sort.Strings(p.Substituted)
}

type normaliser struct {
	p    *Program
	pkg  *packages.Package
	info *types.Info
	in   *inliner
	pure map[*types.Func]int // 0 unknown, 1 pure, 2 impure, 3 in progress
	base *Baseline

	arraysToo  bool // tableLiteral accepts array tables (canonArrayTable)
	byValue    map[string]*types.Const // string value -> the one package-level constant that has it
	byteConsts map[int64]*types.Const  // value -> the one uint8-only integer constant that has it
}

// canonLen rewrites length tests of strings against 0/1 into comparisons with "".
func (n *normaliser) canonLen(fd *ast.FuncDecl) {
	astutil.Apply(fd.Body, nil, func(c *astutil.Cursor) bool {
		be, ok := c.Node().(*ast.BinaryExpr)
		if !ok {
			return true
		}
		x, y, op := be.X, be.Y, be.Op
		if n.lenOfString(y) != nil {
			// constant on the left: mirror
			x, y = y, x
			switch op {
			case token.LSS:
				op = token.GTR
			case token.GTR:
				op = token.LSS
			case token.LEQ:
				op = token.GEQ
			case token.GEQ:
				op = token.LEQ
			}
		}
		s := n.lenOfString(x)
		if s == nil {
			return true
		}
		tv, ok := n.info.Types[y]
		if !ok || tv.Value == nil || tv.Value.Kind() != constant.Int {
			return true
		}
		k, exact := constant.Int64Val(tv.Value)
		if !exact {
			return true
		}
		var newOp token.Token
		switch {
		case k == 0 && (op == token.EQL || op == token.LEQ), k == 1 && op == token.LSS:
			newOp = token.EQL
		case k == 0 && (op == token.NEQ || op == token.GTR), k == 1 && op == token.GEQ:
			newOp = token.NEQ
		default:
			return true
		}
		lit := &ast.BasicLit{Kind: token.STRING, Value: `""`, ValuePos: y.Pos()}
		n.info.Types[lit] = types.TypeAndValue{Type: types.Typ[types.UntypedString], Value: constant.MakeString("")}
		rep := &ast.BinaryExpr{X: s, Op: newOp, OpPos: be.OpPos, Y: lit}
		if t, ok := n.info.Types[be]; ok {
			n.info.Types[rep] = t
		}
		c.Replace(rep)
		n.p.mutated = true
		return true
	})
}

func (n *normaliser) lenOfString(e ast.Expr) ast.Expr {
	call, ok := astx.Unparen(e).(*ast.CallExpr)
	if !ok || len(call.Args) != 1 {
		return nil
	}
	id, ok := call.Fun.(*ast.Ident)
	if !ok {
		return nil
	}
	if b, ok := n.info.Uses[id].(*types.Builtin); !ok || b.Name() != "len" {
		return nil
	}
	if t := n.info.TypeOf(call.Args[0]); t != nil {
		if bt, ok := t.Underlying().(*types.Basic); ok && bt.Info()&types.IsString != 0 {
			return call.Args[0]
		}
	}
	return nil
}

// substituteLocals performs one round of forward substitution in fd; reports whether anything changed.
func (n *normaliser) substituteLocals(fd *ast.FuncDecl, q string, known map[string]bool) bool {
	changed := false
	// locals whose defining expression has a shape the inventory knows (same expression modulo the
	// names of locals and fields), as many per shape as the inventory has and the exact keys leave over
	renamedKnown := map[*ast.Ident]bool{}
	if shapes := n.base.Shapes[q]; shapes != nil {
		defs := localDefs(fd.Body)
		exact := map[string]int{}
		for _, def := range defs {
			if known[exprKey(n.info, def.rhs)] {
				exact[looseKey(n.info, def.rhs)]++
			}
		}
		used := map[string]int{}
		for _, def := range defs {
			if known[exprKey(n.info, def.rhs)] {
				continue
			}
			lk := looseKey(n.info, def.rhs)
			if exact[lk]+used[lk] < shapes[lk] {
				used[lk]++
				renamedKnown[def.id] = true
			}
		}
	}
	for _, def := range localDefs(fd.Body) {
		obj, _ := n.info.Defs[def.id].(*types.Var)
		if obj == nil {
			continue
		}
		if known[exprKey(n.info, def.rhs)] || renamedKnown[def.id] {
			continue
		}
		if n.callsNewHelper(def.rhs) {
			continue
		}
		uses, ok := n.usesOf(fd, def, obj)
		if !ok || len(uses) == 0 {
			continue
		}
		if n.adjacentSingleUse(fd, def, uses) {
			// `tmp := E; return tmp` / `tmp := g(); f(tmp)`: whatever E does, it does it at the same point
		} else if !n.pureExpr(def.rhs, 0) || !n.stable(fd, def, uses) {
			continue
		}
		// replace the uses
		useSet := map[*ast.Ident]bool{}
		for _, u := range uses {
			useSet[u] = true
		}
		astutil.Apply(fd.Body, nil, func(c *astutil.Cursor) bool {
			id, ok := c.Node().(*ast.Ident)
			if !ok || !useSet[id] {
				return true
			}
			cl := n.in.clone(def.rhs, nil).(ast.Expr)
			var rep ast.Expr = cl
			switch cl.(type) {
			case *ast.Ident, *ast.BasicLit, *ast.SelectorExpr, *ast.CallExpr, *ast.IndexExpr:
			default:
				pe := &ast.ParenExpr{X: cl, Lparen: id.Pos(), Rparen: id.End()}
				if tv, ok := n.info.Types[def.rhs]; ok {
					n.info.Types[pe] = tv
				}
				rep = pe
			}
			// the use has the type of the variable (an untyped constant expression was converted at the definition)
			if tv, ok := n.info.Types[id]; ok {
				if old, ok2 := n.info.Types[rep]; ok2 && old.Value != nil {
					tv.Value = old.Value
				}
				n.info.Types[rep] = tv
			}
			c.Replace(rep)
			return true
		})
		// drop the definition
		n.dropDef(fd, def)
		n.p.Substituted = append(n.p.Substituted, FuncName(fd)+"."+def.id.Name)
		n.p.mutated = true
		changed = true
		break // positions and definitions changed: recompute
	}
	return changed
}

// adjacentSingleUse: the local is defined by the statement right before the one statement that uses
// it, once, and nothing in that statement is evaluated before the use (no call, receive or
// composite operand to its left other than the calls it is an argument of, whose callee is named by
// identifiers). Substituting then keeps the order of every effect, pure or not.
func (n *normaliser) adjacentSingleUse(fd *ast.FuncDecl, def localDef, uses []*ast.Ident) bool {
	if len(uses) != 1 {
		return false
	}
	as, ok := def.stmt.(*ast.AssignStmt)
	if !ok || len(as.Lhs) != 1 || len(as.Rhs) != 1 || as.Tok != token.DEFINE {
		return false
	}
	use := uses[0]
	var next ast.Stmt
	ast.Inspect(fd.Body, func(node ast.Node) bool {
		var list []ast.Stmt
		switch x := node.(type) {
		case *ast.BlockStmt:
			list = x.List
		case *ast.CaseClause:
			list = x.Body
		case *ast.CommClause:
			list = x.Body
		}
		for i, s := range list {
			if s == ast.Stmt(as) && i+1 < len(list) {
				next = list[i+1]
			}
		}
		return next == nil
	})
	if next == nil || !(next.Pos() <= use.Pos() && use.End() <= next.End()) {
		return false
	}
	var scope ast.Node
	switch x := next.(type) {
	case *ast.ReturnStmt, *ast.ExprStmt, *ast.DeferStmt, *ast.GoStmt, *ast.SendStmt:
		scope = x
	case *ast.AssignStmt:
		for _, l := range x.Lhs {
			if _, isID := l.(*ast.Ident); !isID {
				return false // the operands of an index or field target are evaluated first
			}
		}
		scope = x
	default:
		return false
	}
	if _, isGo := next.(*ast.GoStmt); isGo {
		return false
	}
	ok = true
	ancestors := map[ast.Node]bool{}
	var stack []ast.Node
	ast.Inspect(scope, func(node ast.Node) bool {
		if node == nil {
			stack = stack[:len(stack)-1]
			return false
		}
		if node == ast.Node(use) {
			for _, a := range stack {
				ancestors[a] = true
			}
		}
		stack = append(stack, node)
		return true
	})
	ast.Inspect(scope, func(node ast.Node) bool {
		if node == nil || !ok {
			return false
		}
		if node.Pos() >= use.Pos() {
			return false
		}
		switch x := node.(type) {
		case *ast.FuncLit:
			if ancestors[x] {
				ok = false // the use would run later
			}
			return false
		case *ast.CallExpr:
			if !ancestors[x] || !plainCallee(x.Fun) {
				ok = false
			}
		case *ast.UnaryExpr:
			if x.Op == token.ARROW {
				ok = false
			}
		case *ast.BinaryExpr:
			if ancestors[x] && (x.Op == token.LAND || x.Op == token.LOR) && x.Y.Pos() <= use.Pos() {
				ok = false // evaluated only conditionally
			}
		case *ast.IndexExpr, *ast.SliceExpr, *ast.StarExpr, *ast.TypeAssertExpr:
			if !ancestors[x] {
				ok = false // may panic first
			}
		}
		return true
	})
	return ok
}

func plainCallee(e ast.Expr) bool {
	switch x := e.(type) {
	case *ast.Ident:
		return true
	case *ast.SelectorExpr:
		return plainCallee(x.X)
	case *ast.ParenExpr:
		return plainCallee(x.X)
	}
	return false
}

func (n *normaliser) dropDef(fd *ast.FuncDecl, def localDef) {
	astutil.Apply(fd.Body, nil, func(c *astutil.Cursor) bool {
		if c.Node() != ast.Node(def.stmt) {
			return true
		}
		switch s := def.stmt.(type) {
		case *ast.AssignStmt:
			if len(s.Lhs) == 1 {
				if c.Index() >= 0 {
					c.Delete()
				} else {
					c.Replace(&ast.EmptyStmt{Semicolon: s.Pos(), Implicit: true})
				}
				return true
			}
			for i, l := range s.Lhs {
				if l == ast.Expr(def.id) {
					s.Lhs = append(s.Lhs[:i:i], s.Lhs[i+1:]...)
					s.Rhs = append(s.Rhs[:i:i], s.Rhs[i+1:]...)
					break
				}
			}
		case *ast.DeclStmt:
			gd := s.Decl.(*ast.GenDecl)
			for si, spec := range gd.Specs {
				vs, ok := spec.(*ast.ValueSpec)
				if !ok {
					continue
				}
				for i, id := range vs.Names {
					if id == def.id {
						vs.Names = append(vs.Names[:i:i], vs.Names[i+1:]...)
						vs.Values = append(vs.Values[:i:i], vs.Values[i+1:]...)
					}
				}
				if len(vs.Names) == 0 {
					gd.Specs = append(gd.Specs[:si:si], gd.Specs[si+1:]...)
					break
				}
			}
			if len(gd.Specs) == 0 {
				if c.Index() >= 0 {
					c.Delete()
				} else {
					c.Replace(&ast.EmptyStmt{Semicolon: s.Pos(), Implicit: true})
				}
			}
		}
		return true
	})
}

// usesOf returns the reading uses of obj; ok is false when obj is written again, has its address
// taken, or is used inside a function literal that does not contain its definition.
func (n *normaliser) usesOf(fd *ast.FuncDecl, def localDef, obj *types.Var) ([]*ast.Ident, bool) {
	var uses []*ast.Ident
	ok := true
	var lits []*ast.FuncLit
	var visit func(node ast.Node) bool
	visit = func(node ast.Node) bool {
		switch x := node.(type) {
		case *ast.FuncLit:
			lits = append(lits, x)
			ast.Inspect(x.Body, visit)
			lits = lits[:len(lits)-1]
			return false
		case *ast.AssignStmt:
			for _, l := range x.Lhs {
				if id, isID := astx.Unparen(l).(*ast.Ident); isID && id != def.id && (n.info.Uses[id] == obj || n.info.Defs[id] == obj) {
					ok = false
				}
				// written through: `copy.Field = …`, `copy[i] = …` change the local (a copy when it holds a
				// struct or array), not what its defining expression reads
				if _, isID := astx.Unparen(l).(*ast.Ident); !isID && rootVar(n.info, l) == types.Object(obj) {
					ok = false
				}
			}
		case *ast.IncDecStmt:
			if rootVar(n.info, x.X) == types.Object(obj) {
				ok = false
			}
		case *ast.CallExpr:
			// a pointer-receiver method called on a struct/array local takes its address
			if sel, isSel := x.Fun.(*ast.SelectorExpr); isSel {
				if id, isID := astx.Unparen(sel.X).(*ast.Ident); isID && n.info.Uses[id] == obj {
					if f, isF := n.info.Uses[sel.Sel].(*types.Func); isF {
						if sig, _ := f.Type().(*types.Signature); sig != nil && sig.Recv() != nil {
							_, recvPtr := sig.Recv().Type().(*types.Pointer)
							_, objPtr := obj.Type().Underlying().(*types.Pointer)
							if recvPtr && !objPtr {
								ok = false
							}
						}
					}
				}
			}
		case *ast.UnaryExpr:
			if id, isID := astx.Unparen(x.X).(*ast.Ident); isID && x.Op == token.AND && n.info.Uses[id] == obj {
				ok = false
			}
		case *ast.RangeStmt:
			for _, e := range []ast.Expr{x.Key, x.Value} {
				if id, isID := e.(*ast.Ident); isID && (n.info.Uses[id] == obj || n.info.Defs[id] == obj) {
					ok = false
				}
			}
		case *ast.Ident:
			if n.info.Uses[x] == obj {
				for _, lit := range lits {
					if !(lit.Pos() <= def.id.Pos() && def.id.Pos() < lit.End()) {
						ok = false // captured by a closure that may run later
					}
				}
				uses = append(uses, x)
			}
		}
		return true
	}
	ast.Inspect(fd.Body, visit)
	return uses, ok
}

// rootVar returns the variable at the root of a selector / index / dereference chain.
func rootVar(info *types.Info, e ast.Expr) types.Object {
	for {
		switch x := e.(type) {
		case *ast.ParenExpr:
			e = x.X
		case *ast.SelectorExpr:
			e = x.X
		case *ast.IndexExpr:
			e = x.X
		case *ast.StarExpr:
			e = x.X
		case *ast.SliceExpr:
			e = x.X
		case *ast.Ident:
			return info.Uses[x]
		default:
			return nil
		}
	}
}

// stable checks that nothing the defining expression reads is written between the definition and
// the last use: variables it mentions are never reassigned in the function, and no assignment or
// mutating method call goes through one of them in that source range.
func (n *normaliser) stable(fd *ast.FuncDecl, def localDef, uses []*ast.Ident) bool {
	roots := map[types.Object]bool{}
	ast.Inspect(def.rhs, func(node ast.Node) bool {
		if id, ok := node.(*ast.Ident); ok {
			if v, ok := n.info.Uses[id].(*types.Var); ok && !v.IsField() {
				roots[v] = true
			}
		}
		return true
	})
	if len(roots) == 0 {
		return true
	}
	// access paths read by the expression ("u.readMaxBytes", "request.Header"): a write through
	// "u.bufferPool" does not disturb a read of "u.readMaxBytes"
	var reads []string
	var collect func(e ast.Expr)
	collect = func(e ast.Expr) {
		switch x := e.(type) {
		case nil:
		case *ast.Ident:
			reads = append(reads, x.Name)
		case *ast.SelectorExpr:
			reads = append(reads, types.ExprString(x))
		case *ast.CallExpr:
			if sel, ok := x.Fun.(*ast.SelectorExpr); ok {
				collect(sel.X)
			}
			for _, a := range x.Args {
				collect(a)
			}
		case *ast.ParenExpr:
			collect(x.X)
		case *ast.StarExpr:
			collect(x.X)
		case *ast.UnaryExpr:
			collect(x.X)
		case *ast.BinaryExpr:
			collect(x.X)
			collect(x.Y)
		case *ast.IndexExpr:
			collect(x.X)
			collect(x.Index)
		case *ast.SliceExpr:
			collect(x.X)
			collect(x.Low)
			collect(x.High)
			collect(x.Max)
		default:
			reads = append(reads, types.ExprString(e))
		}
	}
	collect(def.rhs)
	conflicts := func(written ast.Expr) bool {
		w := types.ExprString(astx.Unparen(written))
		for _, r := range reads {
			if w == r || strings.HasPrefix(r, w+".") || strings.HasPrefix(r, w+"[") || strings.HasPrefix(w, r+".") || strings.HasPrefix(w, r+"[") {
				return true
			}
		}
		return false
	}
	readsField := false
	ast.Inspect(def.rhs, func(node ast.Node) bool {
		if sel, isSel := node.(*ast.SelectorExpr); isSel {
			if v, isV := n.info.Uses[sel.Sel].(*types.Var); isV && v.IsField() {
				readsField = true
			}
		}
		return true
	})
	lo, hi := def.stmt.End(), def.stmt.End()
	for _, u := range uses {
		if u.End() > hi {
			hi = u.End()
		}
	}
	rootOf := func(e ast.Expr) types.Object {
		for {
			switch x := e.(type) {
			case *ast.SelectorExpr:
				e = x.X
			case *ast.IndexExpr:
				e = x.X
			case *ast.StarExpr:
				e = x.X
			case *ast.ParenExpr:
				e = x.X
			case *ast.SliceExpr:
				e = x.X
			case *ast.CallExpr:
				// x.Header().Set(...): the receiver chain continues through getters
				if sel, ok := x.Fun.(*ast.SelectorExpr); ok {
					e = sel.X
					continue
				}
				return nil
			case *ast.Ident:
				return n.info.Uses[x]
			default:
				return nil
			}
		}
	}
	ok := true
	ast.Inspect(fd.Body, func(node ast.Node) bool {
		switch x := node.(type) {
		case *ast.AssignStmt:
			for _, l := range x.Lhs {
				l = astx.Unparen(l)
				if id, isID := l.(*ast.Ident); isID {
					if obj := n.info.Uses[id]; obj != nil && roots[obj] {
						ok = false // a variable of the expression is reassigned somewhere in the function
					}
					continue
				}
				if x.Pos() >= lo && x.Pos() <= hi && roots[rootOf(l)] && conflicts(l) {
					ok = false
				}
			}
		case *ast.IncDecStmt:
			if roots[rootOf(x.X)] && conflicts(x.X) {
				ok = false
			}
		case *ast.RangeStmt:
			for _, e := range []ast.Expr{x.Key, x.Value} {
				if id, isID := e.(*ast.Ident); isID && roots[n.info.Uses[id]] {
					ok = false
				}
			}
		case *ast.UnaryExpr:
			if x.Op == token.AND && x.Pos() >= lo && x.Pos() <= hi {
				if id, isID := astx.Unparen(x.X).(*ast.Ident); isID && roots[n.info.Uses[id]] {
					ok = false
				}
			}
		case *ast.SendStmt:
			if x.Pos() >= lo && x.Pos() <= hi && readsField {
				ok = false // a synchronisation point: a field read must stay on its side of it
			}
		case *ast.GoStmt:
			if x.Pos() >= lo && x.Pos() <= hi && readsField {
				ok = false
			}
		case *ast.CallExpr:
			if x.Pos() < lo || x.Pos() > hi {
				return true
			}
			// lock/unlock, once, wait groups, channel close: a read of shared state (a field) is not moved across
			if readsField {
				if f, isF := astx.Callee(n.info, x).(*types.Func); isF && f.Pkg() != nil && (f.Pkg().Path() == "sync" || f.Pkg().Path() == "sync/atomic") {
					ok = false
				}
				if id, isID := x.Fun.(*ast.Ident); isID {
					if b, isB := n.info.Uses[id].(*types.Builtin); isB && b.Name() == "close" {
						ok = false
					}
				}
			}
			if sel, isSel := x.Fun.(*ast.SelectorExpr); isSel && mutatingMethod[sel.Sel.Name] && roots[rootOf(sel.X)] && conflicts(sel.X) {
				ok = false
			}
			if id, isID := x.Fun.(*ast.Ident); isID {
				if b, isB := n.info.Uses[id].(*types.Builtin); isB && (b.Name() == "delete" || b.Name() == "copy" || b.Name() == "clear") && len(x.Args) > 0 && roots[rootOf(x.Args[0])] && conflicts(x.Args[0]) {
					ok = false
				}
			}
		}
		return true
	})
	return ok
}

var mutatingMethod = map[string]bool{
	"Set": true, "Add": true, "Del": true, "Write": true, "WriteString": true, "WriteByte": true, "Reset": true,
	"Grow": true, "Truncate": true, "Put": true, "Store": true, "Swap": true, "Delete": true, "Close": true,
	"Read": true, "ReadFrom": true, "WriteTo": true, "Next": true, "Send": true, "Receive": true, "SetError": true,
}

// pureExpr accepts expressions that only read: operands, field and index reads, arithmetic,
// comparisons, conversions, len/cap and calls of functions known to have no effects.
func (n *normaliser) pureExpr(e ast.Expr, depth int) bool {
	if depth > 12 {
		return false
	}
	switch x := e.(type) {
	case *ast.Ident:
		return true
	case *ast.BasicLit:
		return true
	case *ast.ParenExpr:
		return n.pureExpr(x.X, depth+1)
	case *ast.SelectorExpr:
		if _, isPkg := n.info.Uses[identOf(x.X)].(*types.PkgName); isPkg {
			return true
		}
		return n.pureExpr(x.X, depth+1)
	case *ast.StarExpr:
		return n.pureExpr(x.X, depth+1)
	case *ast.IndexExpr:
		return n.pureExpr(x.X, depth+1) && n.pureExpr(x.Index, depth+1)
	case *ast.SliceExpr:
		for _, s := range []ast.Expr{x.X, x.Low, x.High, x.Max} {
			if s != nil && !n.pureExpr(s, depth+1) {
				return false
			}
		}
		return true
	case *ast.UnaryExpr:
		return (x.Op == token.SUB || x.Op == token.NOT || x.Op == token.ADD || x.Op == token.XOR) && n.pureExpr(x.X, depth+1)
	case *ast.BinaryExpr:
		return n.pureExpr(x.X, depth+1) && n.pureExpr(x.Y, depth+1)
	case *ast.CallExpr:
		for _, a := range x.Args {
			if !n.pureExpr(a, depth+1) {
				return false
			}
		}
		if tv, ok := n.info.Types[x.Fun]; ok && tv.IsType() {
			return true // conversion
		}
		switch obj := astx.Callee(n.info, x).(type) {
		case *types.Builtin:
			switch obj.Name() {
			case "len", "cap", "min", "max":
				return true
			}
			return false
		case *types.Func:
			if sel, ok := x.Fun.(*ast.SelectorExpr); ok {
				if _, isPkg := n.info.Uses[identOf(sel.X)].(*types.PkgName); !isPkg && !n.pureExpr(sel.X, depth+1) {
					return false
				}
			}
			return n.pureFunc(obj)
		}
	}
	return false
}

func identOf(e ast.Expr) *ast.Ident {
	id, _ := e.(*ast.Ident)
	return id
}

// pureFunc: library functions from a fixed list, getters of the protobuf descriptor packages, and
// first-party functions whose body only computes on locals and calls pure functions.
func (n *normaliser) pureFunc(f *types.Func) bool {
	f = f.Origin()
	if f.Pkg() == nil {
		return false
	}
	path := f.Pkg().Path()
	sig := f.Type().(*types.Signature)
	recv := ""
	if sig.Recv() != nil {
		t := sig.Recv().Type()
		if p, ok := t.(*types.Pointer); ok {
			t = p.Elem()
		}
		if named, ok := t.(*types.Named); ok {
			recv = named.Obj().Name()
		}
	}
	switch path {
	case "strings":
		return recv == ""
	case "strconv":
		return recv == "" && !strings.HasPrefix(f.Name(), "Append")
	case "unicode", "unicode/utf8", "math", "math/bits", "path", "path/filepath":
		return recv == ""
	case "bytes":
		return recv == "" || (recv == "Buffer" && (f.Name() == "Len" || f.Name() == "Cap" || f.Name() == "Bytes" || f.Name() == "String"))
	case "net/http":
		return (recv == "Header" && (f.Name() == "Get" || f.Name() == "Values")) || (recv == "" && (f.Name() == "CanonicalHeaderKey" || f.Name() == "StatusText")) ||
			(recv == "Request" && f.Name() == "Context")
	case "net/textproto":
		return recv == "" && f.Name() == "CanonicalMIMEHeaderKey"
	case "go/token":
		return recv == "" && (f.Name() == "IsKeyword" || f.Name() == "IsIdentifier" || f.Name() == "IsExported" || f.Name() == "Lookup")
	case "fmt":
		return recv == "" && (f.Name() == "Sprintf" || f.Name() == "Sprint" || f.Name() == "Sprintln")
	case "errors":
		return f.Name() == "Is"
	case "time":
		return recv == "Duration" || (recv == "" && f.Name() != "Now" && f.Name() != "Sleep" && f.Name() != "After" && f.Name() != "Since" && f.Name() != "Until" && !strings.HasPrefix(f.Name(), "New"))
	case "google.golang.org/protobuf/reflect/protoreflect", "google.golang.org/protobuf/compiler/protogen":
		// descriptor getters; generation state is changed only through GeneratedFile methods
		return recv != "GeneratedFile" && recv != "Plugin"
	}
	if n.p.ByPath[path] == nil {
		return false
	}
	switch n.pure[f] {
	case 1:
		return true
	case 2, 3:
		return false
	}
	n.pure[f] = 3
	res := n.pureBody(f)
	if res {
		n.pure[f] = 1
	} else {
		n.pure[f] = 2
	}
	return res
}

func (n *normaliser) pureBody(f *types.Func) bool {
	if sig := f.Type().(*types.Signature); sig.Recv() != nil {
		if iface, ok := sig.Recv().Type().Underlying().(*types.Interface); ok {
			// a method of a first-party interface is pure when every first-party implementation is
			impls := 0
			scope := n.pkg.Types.Scope()
			for _, name := range scope.Names() {
				tn, ok := scope.Lookup(name).(*types.TypeName)
				if !ok || tn.IsAlias() {
					continue
				}
				named, ok := tn.Type().(*types.Named)
				if !ok || types.IsInterface(named) || named.TypeParams().Len() > 0 {
					continue
				}
				for _, t := range []types.Type{named, types.NewPointer(named)} {
					if !types.Implements(t, iface) {
						continue
					}
					obj, _, _ := types.LookupFieldOrMethod(t, true, n.pkg.Types, f.Name())
					m, _ := obj.(*types.Func)
					if m == nil || !n.pureFunc(m) {
						return false
					}
					impls++
					break
				}
			}
			return impls > 0
		}
	}
	fd := n.p.Decl(f)
	if fd == nil || fd.Body == nil || n.p.PkgOf(fd) != n.pkg {
		return false
	}
	ok := true
	ast.Inspect(fd.Body, func(node ast.Node) bool {
		if !ok {
			return false
		}
		switch x := node.(type) {
		case *ast.FuncLit, *ast.GoStmt, *ast.DeferStmt, *ast.SendStmt, *ast.SelectStmt:
			ok = false
		case *ast.AssignStmt:
			for _, l := range x.Lhs {
				id, isID := astx.Unparen(l).(*ast.Ident)
				if !isID {
					ok = false
					continue
				}
				obj := n.info.Defs[id]
				if obj == nil {
					obj = n.info.Uses[id]
				}
				if v, isVar := obj.(*types.Var); id.Name != "_" && (!isVar || v.Parent() == nil || v.Parent() == v.Pkg().Scope()) {
					ok = false
				}
			}
		case *ast.IncDecStmt:
			if _, isID := astx.Unparen(x.X).(*ast.Ident); !isID {
				ok = false
			}
		case *ast.UnaryExpr:
			if x.Op == token.ARROW {
				ok = false
			}
		case *ast.CallExpr:
			if tv, isT := n.info.Types[x.Fun]; isT && tv.IsType() {
				return true
			}
			switch obj := astx.Callee(n.info, x).(type) {
			case *types.Builtin:
				switch obj.Name() {
				case "len", "cap", "min", "max", "append", "make", "new":
				default:
					ok = false
				}
			case *types.Func:
				if !n.pureFunc(obj) {
					ok = false
				}
			default:
				ok = false
			}
		}
		return true
	})
	return ok
}

// callsNewHelper reports whether e calls a first-party function outside the inventory: the
// result of an extracted helper is not a hoisted expression (the helper is inlined instead).
func (n *normaliser) callsNewHelper(e ast.Expr) bool {
	found := false
	ast.Inspect(e, func(x ast.Node) bool {
		call, ok := x.(*ast.CallExpr)
		if !ok {
			return true
		}
		if f, ok := astx.Callee(n.info, call).(*types.Func); ok && f.Pkg() != nil && n.p.ByPath[f.Pkg().Path()] != nil {
			if fd := n.p.Decl(f); fd != nil && n.base != nil && !n.base.HasFunc(f.Pkg().Path()+"."+FuncName(fd)) {
				found = true
			}
		}
		return true
	})
	return found
}

// canonSwitch rewrites tagged switches with a tag unknown to the inventory into tagless form.
func (n *normaliser) canonSwitch(fd *ast.FuncDecl, known map[string]bool) {
	ast.Inspect(fd.Body, func(x ast.Node) bool {
		sw, ok := x.(*ast.SwitchStmt)
		if !ok || sw.Tag == nil {
			return true
		}
		if known[exprKey(n.info, sw.Tag)] || !n.pureExpr(sw.Tag, 0) {
			return true
		}
		// the tag is evaluated once per comparison after the rewrite: only variables and field reads
		simple := true
		ast.Inspect(sw.Tag, func(y ast.Node) bool {
			if _, isCall := y.(*ast.CallExpr); isCall {
				simple = false
			}
			return true
		})
		if !simple {
			return true
		}
		boolT := types.TypeAndValue{Type: types.Typ[types.Bool]}
		for _, cl := range sw.Body.List {
			cc := cl.(*ast.CaseClause)
			if cc.List == nil {
				continue
			}
			var cond ast.Expr
			for _, v := range cc.List {
				eq := &ast.BinaryExpr{X: n.in.clone(sw.Tag, nil).(ast.Expr), Op: token.EQL, OpPos: v.Pos(), Y: v}
				n.info.Types[eq] = boolT
				if cond == nil {
					cond = eq
				} else {
					or := &ast.BinaryExpr{X: cond, Op: token.LOR, OpPos: v.Pos(), Y: eq}
					n.info.Types[or] = boolT
					cond = or
				}
			}
			cc.List = []ast.Expr{cond}
		}
		sw.Tag = nil
		n.p.mutated = true
		return true
	})
}

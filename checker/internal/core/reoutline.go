package core

import (
	"bytes"
	"fmt"
	"go/ast"
	"go/format"
	"go/parser"
	"go/token"
	"go/types"
	"os"
	"sort"
	"strconv"
	"strings"

	"golang.org/x/tools/go/packages"
)

// Expression helpers that vanished.
//
// The inventory keeps the source of every function of the pinned tree whose body is one `return E`
// ("expression helper"). When such a function is gone from the current tree and no rename accounts for
// it, its calls were most likely replaced by E: every expression of the package that is E with the
// parameters replaced by operands is turned into a call again and the declaration is put back, through
// the same overlay that renames use (nothing is written to /repo). The match is exact, node for node,
// identifiers other than parameters must be the package-level (or predeclared) names they are in the
// helper, and an operand that stands for a parameter the helper uses more than once must be a plain
// identifier or selection: the rewritten tree computes what the current tree computes. An inlined copy
// that differs from E in any way is not matched and the rules see it as written.

// exprHelperSource renders fd for the inventory when it is an expression helper.
func exprHelperSource(fset *token.FileSet, fd *ast.FuncDecl) (string, bool) {
	if fd.Body == nil || len(fd.Body.List) != 1 || fd.Type.TypeParams != nil {
		return "", false
	}
	ret, ok := fd.Body.List[0].(*ast.ReturnStmt)
	if !ok || len(ret.Results) != 1 {
		return "", false
	}
	if fd.Type.Results == nil || len(fd.Type.Results.List) != 1 {
		return "", false
	}
	bad := false
	ast.Inspect(ret.Results[0], func(n ast.Node) bool {
		if _, ok := n.(*ast.FuncLit); ok {
			bad = true
		}
		return !bad
	})
	if bad {
		return "", false
	}
	for _, fl := range fd.Type.Params.List {
		if len(fl.Names) == 0 {
			return "", false
		}
		if _, variadic := fl.Type.(*ast.Ellipsis); variadic {
			return "", false
		}
	}
	if fd.Recv != nil && (len(fd.Recv.List) != 1 || len(fd.Recv.List[0].Names) != 1) {
		return "", false
	}
	cp := *fd
	cp.Doc = nil
	var buf bytes.Buffer
	if err := format.Node(&buf, fset, &cp); err != nil {
		return "", false
	}
	return buf.String(), true
}

type exprHelper struct {
	q      string // qualified name
	src    string
	decl   *ast.FuncDecl
	params []string // receiver first
	uses   map[string]int
	body   ast.Expr
}

func parseExprHelper(q, src string) (*exprHelper, error) {
	f, err := parser.ParseFile(token.NewFileSet(), "", "package p\n"+src, 0)
	if err != nil || len(f.Decls) != 1 {
		return nil, fmt.Errorf("helper %s: %v", q, err)
	}
	fd, ok := f.Decls[0].(*ast.FuncDecl)
	if !ok {
		return nil, fmt.Errorf("helper %s: not a function", q)
	}
	h := &exprHelper{q: q, src: src, decl: fd, uses: map[string]int{}}
	if fd.Recv != nil {
		h.params = append(h.params, fd.Recv.List[0].Names[0].Name)
	}
	for _, fl := range fd.Type.Params.List {
		for _, n := range fl.Names {
			h.params = append(h.params, n.Name)
		}
	}
	h.body = fd.Body.List[0].(*ast.ReturnStmt).Results[0]
	isParam := map[string]bool{}
	for _, p := range h.params {
		isParam[p] = true
	}
	var count func(e ast.Node)
	count = func(e ast.Node) {
		ast.Inspect(e, func(n ast.Node) bool {
			switch x := n.(type) {
			case *ast.SelectorExpr:
				count(x.X)
				return false
			case *ast.KeyValueExpr:
				// struct keys are field names; a map key is an expression, but then it is not a bare parameter name in this code base
				count(x.Value)
				if _, isID := x.Key.(*ast.Ident); !isID {
					count(x.Key)
				}
				return false
			case *ast.Ident:
				if isParam[x.Name] {
					h.uses[x.Name]++
				}
			}
			return true
		})
	}
	count(h.body)
	for _, p := range h.params {
		if p == "_" || h.uses[p] == 0 {
			return nil, fmt.Errorf("helper %s: parameter %s cannot be recovered from the expression", q, p)
		}
	}
	return h, nil
}

// reoutline returns an overlay in which the vanished expression helpers of the inventory are back,
// and the notes describing what was done; nil when there is nothing to do.
func (p *Program) reoutline(b *Baseline) (map[string][]byte, []string) {
	if len(b.ExprFuncs) == 0 {
		return nil, nil
	}
	present := map[string]bool{}
	for _, d := range p.declObjects() {
		if d.Kind == "func" {
			present[d.Name] = true
		}
	}
	type edit struct {
		off, end int
		text     string
	}
	edits := map[string][]edit{}
	appendix := map[string][]string{}
	var notes []string
	var names []string
	for q := range b.ExprFuncs {
		names = append(names, q)
	}
	sort.Strings(names)
	for _, q := range names {
		if present[q] {
			continue
		}
		h, err := parseExprHelper(q, b.ExprFuncs[q])
		if err != nil {
			continue
		}
		var pkg *packages.Package
		for _, cand := range p.All {
			if strings.HasPrefix(q, cand.PkgPath+".") && !strings.Contains(q[len(cand.PkgPath)+1:], "/") {
				if pkg == nil || len(cand.PkgPath) > len(pkg.PkgPath) {
					pkg = cand
				}
			}
		}
		if pkg == nil {
			continue
		}
		// a method of the inventory that lives on as a function is the business of the method→function stand-in
		if p.methodAlias(pkg.PkgPath, q[len(pkg.PkgPath)+1:]) != nil {
			continue
		}
		m := &exprMatcher{h: h, info: pkg.TypesInfo, pkg: pkg.Types}
		sites := 0
		firstFile := ""
		for _, f := range pkg.Syntax {
			file := p.Fset.Position(f.Pos()).Filename
			if strings.HasSuffix(file, "_test.go") {
				continue
			}
			src := p.sourceOf(file)
			if src == nil {
				continue
			}
			for _, d := range f.Decls {
				fd, ok := d.(*ast.FuncDecl)
				if !ok || fd.Body == nil {
					continue
				}
				ast.Inspect(fd.Body, func(n ast.Node) bool {
					e, ok := n.(ast.Expr)
					if !ok {
						return true
					}
					bind := map[string]ast.Expr{}
					if !m.match(h.body, e, bind) || len(bind) != len(h.params) {
						return true
					}
					text := func(x ast.Expr) string {
						return string(src[p.Fset.Position(x.Pos()).Offset:p.Fset.Position(x.End()).Offset])
					}
					var call strings.Builder
					args := h.params
					if h.decl.Recv != nil {
						r := bind[h.params[0]]
						if plainOperandExpr(r) {
							call.WriteString(text(r))
						} else {
							call.WriteString("(" + text(r) + ")")
						}
						call.WriteString(".")
						args = args[1:]
					}
					call.WriteString(h.decl.Name.Name + "(")
					for i, a := range args {
						if i > 0 {
							call.WriteString(", ")
						}
						call.WriteString(text(bind[a]))
					}
					call.WriteString(")")
					// the outermost parentheses around the inlined expression go too (harmless either way)
					edits[file] = append(edits[file], edit{p.Fset.Position(e.Pos()).Offset, p.Fset.Position(e.End()).Offset, call.String()})
					sites++
					if firstFile == "" {
						firstFile = file
					}
					return false
				})
			}
		}
		if sites == 0 {
			continue
		}
		appendix[firstFile] = append(appendix[firstFile], h.src)
		notes = append(notes, fmt.Sprintf("%s (gone; %d inlined cop%s turned into calls again)", q[len(pkg.PkgPath)+1:], sites, map[bool]string{true: "y", false: "ies"}[sites == 1]))
	}
	if len(notes) == 0 {
		return nil, nil
	}
	out := map[string][]byte{}
	for f, src := range p.overlay {
		out[f] = src
	}
	files := map[string]bool{}
	for f := range edits {
		files[f] = true
	}
	for f := range appendix {
		files[f] = true
	}
	for file := range files {
		buf := append([]byte(nil), p.sourceOf(file)...)
		es := edits[file]
		sort.Slice(es, func(i, j int) bool { return es[i].off > es[j].off })
		lastOff := len(buf) + 1
		for _, e := range es {
			if e.end > lastOff { // overlaps the previous (later) edit: keep the later one
				continue
			}
			lastOff = e.off
			buf = append(buf[:e.off], append([]byte(e.text), buf[e.end:]...)...)
		}
		for _, decl := range appendix[file] {
			buf = append(buf, []byte("\n\n"+decl+"\n")...)
		}
		out[file] = buf
	}
	return out, notes
}

func (p *Program) sourceOf(file string) []byte {
	if src, ok := p.overlay[file]; ok {
		return src
	}
	data, err := os.ReadFile(file)
	if err != nil {
		return nil
	}
	return data
}

func plainOperandExpr(e ast.Expr) bool {
	switch x := e.(type) {
	case *ast.Ident:
		return true
	case *ast.SelectorExpr:
		return plainOperandExpr(x.X)
	}
	return false
}

type exprMatcher struct {
	h    *exprHelper
	info *types.Info
	pkg  *types.Package
}

func (m *exprMatcher) isParam(name string) bool {
	for _, p := range m.h.params {
		if p == name {
			return true
		}
	}
	return false
}

func unparen(e ast.Expr) ast.Expr {
	for {
		p, ok := e.(*ast.ParenExpr)
		if !ok {
			return e
		}
		e = p.X
	}
}

// match: e is pat with parameters replaced by operands (bind).
func (m *exprMatcher) match(pat, e ast.Expr, bind map[string]ast.Expr) bool {
	if pat == nil || e == nil {
		return pat == nil && e == nil
	}
	pat, e = unparen(pat), unparen(e)
	if id, ok := pat.(*ast.Ident); ok {
		if m.isParam(id.Name) {
			if tv, ok := m.info.Types[e]; ok && tv.IsType() {
				return false
			}
			if prev, seen := bind[id.Name]; seen {
				return plainOperandExpr(prev) && plainOperandExpr(e) && types.ExprString(prev) == types.ExprString(e)
			}
			if m.h.uses[id.Name] != 1 && !plainOperandExpr(e) {
				if _, isLit := e.(*ast.BasicLit); !isLit {
					return false
				}
			}
			bind[id.Name] = e
			return true
		}
		eid, ok := e.(*ast.Ident)
		if !ok || eid.Name != id.Name {
			return false
		}
		// the same package-level or predeclared thing, not a local that happens to share the name
		obj := m.info.Uses[eid]
		if obj == nil {
			return false
		}
		if obj.Parent() == types.Universe || (obj.Pkg() == m.pkg && obj.Parent() == m.pkg.Scope()) {
			return true
		}
		if _, isPkgName := obj.(*types.PkgName); isPkgName {
			return true
		}
		return false
	}
	switch x := pat.(type) {
	case *ast.BasicLit:
		y, ok := e.(*ast.BasicLit)
		return ok && x.Kind == y.Kind && x.Value == y.Value
	case *ast.SelectorExpr:
		y, ok := e.(*ast.SelectorExpr)
		return ok && x.Sel.Name == y.Sel.Name && m.match(x.X, y.X, bind)
	case *ast.CallExpr:
		y, ok := e.(*ast.CallExpr)
		if !ok || len(x.Args) != len(y.Args) || x.Ellipsis.IsValid() != y.Ellipsis.IsValid() || !m.match(x.Fun, y.Fun, bind) {
			return false
		}
		for i := range x.Args {
			if !m.match(x.Args[i], y.Args[i], bind) {
				return false
			}
		}
		return true
	case *ast.UnaryExpr:
		y, ok := e.(*ast.UnaryExpr)
		return ok && x.Op == y.Op && m.match(x.X, y.X, bind)
	case *ast.BinaryExpr:
		y, ok := e.(*ast.BinaryExpr)
		return ok && x.Op == y.Op && m.match(x.X, y.X, bind) && m.match(x.Y, y.Y, bind)
	case *ast.StarExpr:
		y, ok := e.(*ast.StarExpr)
		return ok && m.match(x.X, y.X, bind)
	case *ast.IndexExpr:
		y, ok := e.(*ast.IndexExpr)
		return ok && m.match(x.X, y.X, bind) && m.match(x.Index, y.Index, bind)
	case *ast.IndexListExpr:
		y, ok := e.(*ast.IndexListExpr)
		if !ok || len(x.Indices) != len(y.Indices) || !m.match(x.X, y.X, bind) {
			return false
		}
		for i := range x.Indices {
			if !m.match(x.Indices[i], y.Indices[i], bind) {
				return false
			}
		}
		return true
	case *ast.SliceExpr:
		y, ok := e.(*ast.SliceExpr)
		return ok && x.Slice3 == y.Slice3 && m.match(x.X, y.X, bind) && m.match(x.Low, y.Low, bind) && m.match(x.High, y.High, bind) && m.match(x.Max, y.Max, bind)
	case *ast.TypeAssertExpr:
		y, ok := e.(*ast.TypeAssertExpr)
		return ok && m.match(x.X, y.X, bind) && m.match(x.Type, y.Type, bind)
	case *ast.ArrayType:
		y, ok := e.(*ast.ArrayType)
		return ok && m.match(x.Len, y.Len, bind) && m.match(x.Elt, y.Elt, bind)
	case *ast.MapType:
		y, ok := e.(*ast.MapType)
		return ok && m.match(x.Key, y.Key, bind) && m.match(x.Value, y.Value, bind)
	case *ast.CompositeLit:
		y, ok := e.(*ast.CompositeLit)
		if !ok || len(x.Elts) != len(y.Elts) || !m.match(x.Type, y.Type, bind) {
			return false
		}
		// keyed struct literals match field by field, in any order
		keyOf := func(el ast.Expr) (string, ast.Expr) {
			if kv, ok := el.(*ast.KeyValueExpr); ok {
				if id, ok := kv.Key.(*ast.Ident); ok {
					return id.Name, kv.Value
				}
			}
			return "", nil
		}
		byKey := map[string]ast.Expr{}
		allKeyed := len(y.Elts) > 0
		for _, el := range y.Elts {
			k, v := keyOf(el)
			if k == "" {
				allKeyed = false
				break
			}
			byKey[k] = v
		}
		_, isStruct := typeUnder(m.info.TypeOf(y)).(*types.Struct)
		if allKeyed && isStruct {
			for _, el := range x.Elts {
				k, v := keyOf(el)
				if k == "" || byKey[k] == nil || !m.match(v, byKey[k], bind) {
					return false
				}
			}
			return true
		}
		for i := range x.Elts {
			xkv, xok := x.Elts[i].(*ast.KeyValueExpr)
			ykv, yok := y.Elts[i].(*ast.KeyValueExpr)
			if xok != yok {
				return false
			}
			if xok {
				if !m.match(xkv.Key, ykv.Key, bind) || !m.match(xkv.Value, ykv.Value, bind) {
					return false
				}
				continue
			}
			if !m.match(x.Elts[i], y.Elts[i], bind) {
				return false
			}
		}
		return true
	}
	return false
}

func typeUnder(t types.Type) types.Type {
	if t == nil {
		return nil
	}
	if p, ok := t.Underlying().(*types.Pointer); ok {
		t = p.Elem()
	}
	return t.Underlying()
}

var _ = strconv.Quote

// remethod returns an overlay in which a function that took the place of a method of the inventory
// (`func tM(r *T, a A) R` for the vanished `func (r *T) m(a A) R`, see methodAlias) is that method
// again and every call `tM(x, a)` is `x.m(a)`; nil when there is none, or when the function is also
// used as a value.
func (p *Program) remethod(b *Baseline) (map[string][]byte, []string) {
	type edit struct {
		off, end int
		text     string
	}
	edits := map[string][]edit{}
	var notes []string
	var names []string
	for q := range b.Decls["func"] {
		names = append(names, q)
	}
	sort.Strings(names)
	for _, pkg := range p.All {
		for _, q := range names {
			if !strings.HasPrefix(q, pkg.PkgPath+".") {
				continue
			}
			name := q[len(pkg.PkgPath)+1:]
			dot := strings.Index(name, ".")
			if dot < 0 || strings.Contains(name, "/") || p.Func(pkg.PkgPath, name) != nil {
				continue
			}
			fd := p.methodAlias(pkg.PkgPath, name)
			if fd == nil || fd.Recv != nil || fd.Type.TypeParams != nil || len(fd.Type.Params.List) == 0 || len(fd.Type.Params.List[0].Names) != 1 {
				continue
			}
			want, _ := splitOrd(b.Decls["func"][q])
			wantParams, _ := splitSig(want)
			if fd.Type.Params.NumFields() != len(wantParams)+1 {
				continue
			}
			// the first parameter is the receiver type (or a pointer to it)
			first := fd.Type.Params.List[0]
			rt := pkg.TypesInfo.TypeOf(first.Type)
			if ptr, ok := rt.(*types.Pointer); ok {
				rt = ptr.Elem()
			}
			named, ok := rt.(*types.Named)
			if !ok || named.Obj().Pkg() != pkg.Types || named.Obj().Name() != name[:dot] || named.TypeParams().Len() > 0 {
				continue
			}
			fn, _ := pkg.TypesInfo.Defs[fd.Name].(*types.Func)
			if fn == nil {
				continue
			}
			file := p.Fset.Position(fd.Pos()).Filename
			src := p.sourceOf(file)
			if src == nil {
				continue
			}
			off := func(pos token.Pos) int { return p.Fset.Position(pos).Offset }
			// references: every one the callee of a call with at least one argument
			type ref struct {
				file string
				call *ast.CallExpr
			}
			var refs []ref
			okAll := true
			for _, f := range pkg.Syntax {
				fname := p.Fset.Position(f.Pos()).Filename
				var stack []ast.Node
				ast.Inspect(f, func(n ast.Node) bool {
					if n == nil {
						stack = stack[:len(stack)-1]
						return false
					}
					stack = append(stack, n)
					id, isID := n.(*ast.Ident)
					if !isID || pkg.TypesInfo.Uses[id] != types.Object(fn) {
						return true
					}
					if len(stack) >= 2 {
						if call, isCall := stack[len(stack)-2].(*ast.CallExpr); isCall && call.Fun == ast.Expr(id) && len(call.Args) >= 1 && !call.Ellipsis.IsValid() {
							refs = append(refs, ref{fname, call})
							return true
						}
					}
					okAll = false
					return true
				})
			}
			if !okAll {
				continue
			}
			// declaration: `func tM(r *T, a A)` -> `func (r *T) m(a A)`
			declEnd := off(fd.Type.Params.Closing)
			if len(fd.Type.Params.List) > 1 {
				declEnd = off(fd.Type.Params.List[1].Pos())
			}
			recvText := string(src[off(first.Pos()):off(first.End())])
			edits[file] = append(edits[file], edit{off(fd.Name.Pos()), declEnd, "(" + recvText + ") " + name[dot+1:] + "("})
			for _, r := range refs {
				rsrc := p.sourceOf(r.file)
				if rsrc == nil {
					okAll = false
					break
				}
				arg0 := r.call.Args[0]
				text := string(rsrc[off(arg0.Pos()):off(arg0.End())])
				recv := "(" + text + ")"
				if plainOperandExpr(arg0) {
					recv = text
				} else if u, isAddr := arg0.(*ast.UnaryExpr); isAddr && u.Op == token.AND && plainOperandExpr(u.X) {
					recv = string(rsrc[off(u.X.Pos()):off(u.X.End())])
				}
				end := off(r.call.Rparen)
				if len(r.call.Args) > 1 {
					end = off(r.call.Args[1].Pos())
				}
				edits[r.file] = append(edits[r.file], edit{off(r.call.Fun.Pos()), end, recv + "." + name[dot+1:] + "("})
			}
			if !okAll {
				delete(edits, file)
				continue
			}
			notes = append(notes, fmt.Sprintf("%s (now %s)", name, fd.Name.Name))
		}
	}
	if len(notes) == 0 {
		return nil, nil
	}
	out := map[string][]byte{}
	for f, src := range p.overlay {
		out[f] = src
	}
	for file, es := range edits {
		buf := append([]byte(nil), p.sourceOf(file)...)
		sort.Slice(es, func(i, j int) bool { return es[i].off > es[j].off })
		lastOff := len(buf) + 1
		for _, e := range es {
			if e.end > lastOff {
				// nested calls of the same function: give up on the inner one (the overlay then fails to compile and is dropped)
				continue
			}
			lastOff = e.off
			buf = append(buf[:e.off], append([]byte(e.text), buf[e.end:]...)...)
		}
		out[file] = buf
	}
	return out, notes
}

// dropAddedParams returns an overlay in which a function of the inventory that has gained parameters it
// never uses (blank, unnamed or unreferenced; every caller passes a literal, an identifier or a
// selection for them) has its inventory signature again and the calls pass the old arguments. A
// parameter that is used is left alone: the function then does something with it.
func (p *Program) dropAddedParams(b *Baseline) (map[string][]byte, []string) {
	type edit struct {
		off, end int
		text     string
	}
	edits := map[string][]edit{}
	var notes []string
	off := func(pos token.Pos) int { return p.Fset.Position(pos).Offset }
	// removal range of element k of a comma-separated list given the elements' extents
	cut := func(starts, ends []token.Pos, k int) (int, int) {
		switch {
		case k > 0:
			return off(ends[k-1]), off(ends[k])
		case len(starts) > 1:
			return off(starts[0]), off(starts[1])
		}
		return off(starts[0]), off(ends[0])
	}
	for _, d := range p.declObjects() {
		if d.Kind != "func" {
			continue
		}
		baseT, inInv := b.Decls["func"][d.Name]
		if !inInv {
			continue
		}
		baseSig, _ := splitOrd(baseT)
		curSig, _ := splitOrd(d.Type)
		if baseSig == curSig {
			continue
		}
		bp, br := splitSig(baseSig)
		cp, cr := splitSig(curSig)
		if br != cr || len(cp) <= len(bp) {
			continue
		}
		var extra []int
		i := 0
		for j := range cp {
			if i < len(bp) && cp[j] == bp[i] {
				i++
			} else {
				extra = append(extra, j)
			}
		}
		if i != len(bp) || len(extra) == 0 {
			continue
		}
		fn, _ := d.obj.(*types.Func)
		fd := p.Decl(fn)
		if fn == nil || fd == nil || fd.Body == nil {
			continue
		}
		pkg := p.declPkg[fd]
		if pkg == nil {
			continue
		}
		info := pkg.TypesInfo
		// flatten the parameter names; only single-name (or unnamed) fields can be cut cleanly
		type prm struct {
			field *ast.Field
			name  *ast.Ident
		}
		var prms []prm
		clean := true
		for _, f := range fd.Type.Params.List {
			if len(f.Names) == 0 {
				prms = append(prms, prm{f, nil})
				continue
			}
			for _, nm := range f.Names {
				prms = append(prms, prm{f, nm})
			}
		}
		if len(prms) != len(cp) {
			continue
		}
		isExtra := map[int]bool{}
		for _, k := range extra {
			isExtra[k] = true
			pr := prms[k]
			if len(pr.field.Names) > 1 {
				clean = false
			}
			if _, variadic := pr.field.Type.(*ast.Ellipsis); variadic {
				clean = false
			}
			if pr.name != nil && pr.name.Name != "_" {
				obj := info.Defs[pr.name]
				ast.Inspect(fd.Body, func(x ast.Node) bool {
					if id, ok := x.(*ast.Ident); ok && obj != nil && info.Uses[id] == obj {
						clean = false
					}
					return clean
				})
			}
		}
		if !clean {
			continue
		}
		// every reference is the callee of a call
		type ref struct {
			file string
			call *ast.CallExpr
		}
		var refs []ref
		for _, f := range pkg.Syntax {
			fname := p.Fset.Position(f.Pos()).Filename
			var stack []ast.Node
			ast.Inspect(f, func(n ast.Node) bool {
				if n == nil {
					stack = stack[:len(stack)-1]
					return false
				}
				stack = append(stack, n)
				id, isID := n.(*ast.Ident)
				if !isID {
					return true
				}
				o, _ := info.Uses[id].(*types.Func)
				if o == nil || o.Origin() != fn {
					return true
				}
				var call *ast.CallExpr
				if len(stack) >= 2 {
					switch par := stack[len(stack)-2].(type) {
					case *ast.CallExpr:
						if par.Fun == ast.Expr(id) {
							call = par
						}
					case *ast.SelectorExpr:
						if par.Sel == id && len(stack) >= 3 {
							if c2, ok := stack[len(stack)-3].(*ast.CallExpr); ok && c2.Fun == ast.Expr(par) {
								call = c2
							}
						}
					}
				}
				if call == nil || call.Ellipsis.IsValid() || len(call.Args) != len(cp) {
					clean = false
					return true
				}
				for _, k := range extra {
					if !plainOperandExpr(call.Args[k]) {
						if _, isLit := call.Args[k].(*ast.BasicLit); !isLit {
							clean = false
						}
					}
				}
				refs = append(refs, ref{fname, call})
				return true
			})
		}
		if !clean || len(extra) > 1 {
			continue // several cuts in one list may overlap: only the single-parameter case is rewritten
		}
		file := p.Fset.Position(fd.Pos()).Filename
		// cut the parameters (fields are single-name or unnamed here, so fields are the list elements)
		var fstarts, fends []token.Pos
		fieldIdx := map[*ast.Field]int{}
		for fi, f := range fd.Type.Params.List {
			fstarts, fends = append(fstarts, f.Pos()), append(fends, f.End())
			fieldIdx[f] = fi
		}
		overlap := false
		done := map[int]bool{}
		for _, k := range extra {
			fi := fieldIdx[prms[k].field]
			if done[fi] {
				continue
			}
			done[fi] = true
			if fi > 0 && done[fi-1] || done[fi+1] {
				overlap = true // adjacent cuts would overlap: keep it simple
			}
			a, e := cut(fstarts, fends, fi)
			edits[file] = append(edits[file], edit{a, e, ""})
		}
		for _, r := range refs {
			var starts, ends []token.Pos
			for _, a := range r.call.Args {
				starts, ends = append(starts, a.Pos()), append(ends, a.End())
			}
			for _, k := range extra {
				a, e := cut(starts, ends, k)
				edits[r.file] = append(edits[r.file], edit{a, e, ""})
			}
		}
		_ = overlap
		notes = append(notes, fmt.Sprintf("%s (an unused parameter dropped)", d.Name[strings.LastIndex(d.Name, "/")+1:]))
	}
	if len(notes) == 0 {
		return nil, nil
	}
	out := map[string][]byte{}
	for f, src := range p.overlay {
		out[f] = src
	}
	for file, es := range edits {
		buf := append([]byte(nil), p.sourceOf(file)...)
		sort.Slice(es, func(i, j int) bool { return es[i].off > es[j].off })
		lastOff := len(buf) + 1
		for _, e := range es {
			if e.end > lastOff {
				continue
			}
			lastOff = e.off
			buf = append(buf[:e.off], append([]byte(e.text), buf[e.end:]...)...)
		}
		out[file] = buf
	}
	return out, notes
}

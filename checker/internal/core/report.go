package core

import (
	"encoding/json"
	"fmt"
	"go/token"
	"os"
	"path/filepath"
	"runtime/debug"
	"sort"
	"strings"
)

// Verdict of one obligation.
type Verdict string

const (
	Discharged Verdict = "discharged"
	Violated   Verdict = "violated"
	Undecided  Verdict = "undecided"  // construct the rule cannot classify: fails the check
	Unresolved Verdict = "unresolved" // anchor not found: fails the check
)

// Obligation is one construct checked by one rule. Key never contains a line number.
type Obligation struct {
	Rule    string  `json:"rule"`
	Key     string  `json:"key"`
	Pos     string  `json:"pos"`
	Verdict Verdict `json:"verdict"`
	Detail  string  `json:"detail,omitempty"`
}

// Rule is one repository-specific structural rule.
type Rule struct {
	ID  string
	Doc string // the obligation in one or two sentences (goes to the evidence)
	Run func(c *Ctx)
}

// Ctx collects the obligations of one rule run.
type Ctx struct {
	P     *Program
	Rule  *Rule
	Obs   []Obligation
	Notes []string
	Tier  string
}

func (c *Ctx) add(v Verdict, key string, pos token.Pos, format string, args ...any) {
	c.Obs = append(c.Obs, Obligation{Rule: c.Rule.ID, Key: key, Pos: c.P.Pos(pos), Verdict: v, Detail: fmt.Sprintf(format, args...)})
}

func (c *Ctx) Ok(key string, pos token.Pos, format string, args ...any) {
	c.add(Discharged, key, pos, format, args...)
}
func (c *Ctx) Violation(key string, pos token.Pos, format string, args ...any) {
	c.add(Violated, key, pos, format, args...)
}
func (c *Ctx) Undecided(key string, pos token.Pos, format string, args ...any) {
	c.add(Undecided, key, pos, format, args...)
}
func (c *Ctx) Unresolved(key string, format string, args ...any) {
	c.add(Unresolved, key, token.NoPos, format, args...)
}

// Check records Ok or Violation depending on cond.
func (c *Ctx) Check(cond bool, key string, pos token.Pos, format string, args ...any) bool {
	if cond {
		c.add(Discharged, key, pos, format, args...)
	} else {
		c.add(Violated, key, pos, format, args...)
	}
	return cond
}

func (c *Ctx) Note(format string, args ...any) {
	c.Notes = append(c.Notes, fmt.Sprintf(format, args...))
}

// Floor fails the rule when fewer than min instances were matched (a rule matching
// nothing would pass vacuously forever).
func (c *Ctx) Floor(what string, got, min int) {
	if got < min {
		c.add(Unresolved, "floor/"+what, token.NoPos, "matched %d %s, need at least %d: the rule's anchors no longer resolve", got, what, min)
	} else {
		c.Note("%s: %d instance(s) (floor %d)", what, got, min)
	}
}

// KnownFindings is /verif/known_findings.json.
type KnownFindings struct {
	Known []struct {
		Property string `json:"property"`
		Rule     string `json:"rule"`
		Key      string `json:"key"`
		What     string `json:"what"`
	} `json:"known"`
	Fixed []struct {
		Entry string `json:"entry"`
	} `json:"fixed"`
}

func LoadKnown(path string) (*KnownFindings, error) {
	data, err := os.ReadFile(path)
	if err != nil {
		return nil, err
	}
	var k KnownFindings
	if err := json.Unmarshal(data, &k); err != nil {
		return nil, err
	}
	return &k, nil
}

func (k *KnownFindings) Match(property string, o Obligation) (string, bool) {
	if k == nil {
		return "", false
	}
	for _, e := range k.Known {
		if e.Property == property && e.Rule == o.Rule && e.Key == o.Key {
			return e.What, true
		}
	}
	return "", false
}

// Current is the program of the rule that is running (rules run one at a time); helpers without a
// *Program parameter use it to consult the inventory.
var Current *Program

// RunRule runs a rule, converting panics into a failing obligation.
func RunRule(p *Program, r *Rule, tier string) (ctx *Ctx) {
	ctx = &Ctx{P: p, Rule: r, Tier: tier}
	defer func() {
		if rec := recover(); rec != nil {
			ctx.add(Undecided, "panic", token.NoPos, "analyser panic: %v\n%s", rec, firstLines(string(debug.Stack()), 14))
		}
	}()
	Current = p
	r.Run(ctx)
	sort.SliceStable(ctx.Obs, func(i, j int) bool { return ctx.Obs[i].Key < ctx.Obs[j].Key })
	if len(ctx.Obs) == 0 {
		ctx.add(Unresolved, "vacuous", token.NoPos, "rule produced no obligation at all")
	}
	return ctx
}

func firstLines(s string, n int) string {
	lines := strings.Split(s, "\n")
	if len(lines) > n {
		lines = lines[:n]
	}
	return strings.Join(lines, "\n")
}

// WriteJSON writes v atomically.
func WriteJSON(path string, v any) error {
	data, err := json.MarshalIndent(v, "", " ")
	if err != nil {
		return err
	}
	if err := os.MkdirAll(filepath.Dir(path), 0o755); err != nil {
		return err
	}
	tmp := path + ".tmp"
	if err := os.WriteFile(tmp, append(data, '\n'), 0o644); err != nil {
		return err
	}
	return os.Rename(tmp, path)
}

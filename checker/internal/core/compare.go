package core

import (
	"go/ast"
	"go/constant"
	"go/token"
	"go/types"

	"golang.org/x/tools/go/ast/astutil"
)

// canonCompare brings conditions into one spelling, on every tree alike:
//
//   - a comparison with its constant (or nil) operand on the left is mirrored (`nil != x` → `x != nil`,
//     `0 < n` → `n > 0`);
//   - a negation is pushed inwards: `!(a == b)` → `a != b`, `!(a < b)` → `a >= b` (not for floating
//     point operands, whose NaN breaks the equivalence), `!(a && b)` → `!a || !b`, `!!a` → `a`.
//
// Operands are only swapped when one of them is a constant, so the evaluation order of calls is kept.
func (n *normaliser) canonCompare(fd *ast.FuncDecl) {
	astutil.Apply(fd.Body, nil, func(c *astutil.Cursor) bool {
		switch x := c.Node().(type) {
		case *ast.UnaryExpr:
			if x.Op != token.NOT {
				return true
			}
			if rep := n.pushNot(x.X); rep != nil {
				n.copyType(x, rep)
				c.Replace(rep)
				n.p.mutated = true
			}
		case *ast.StarExpr:
			// *(&x) is x
			if u, ok := unparen(x.X).(*ast.UnaryExpr); ok && u.Op == token.AND {
				if _, isLit := unparen(u.X).(*ast.CompositeLit); !isLit {
					c.Replace(u.X)
					n.p.mutated = true
				}
			}
		case *ast.SliceExpr:
			// x[0:n] is x[:n]
			if x.Low != nil {
				if tv, ok := n.info.Types[x.Low]; ok && tv.Value != nil && tv.Value.Kind() == constant.Int {
					if v, exact := constant.Int64Val(tv.Value); exact && v == 0 {
						x.Low = nil
						n.p.mutated = true
					}
				}
			}
		case *ast.BinaryExpr:
			if mirrored, ok := mirrorOp(x.Op); ok && n.constOrNil(x.X) && !n.constOrNil(x.Y) {
				x.X, x.Y, x.Op = x.Y, x.X, mirrored
				n.p.mutated = true
			}
		}
		return true
	})
}

func mirrorOp(op token.Token) (token.Token, bool) {
	switch op {
	case token.EQL, token.NEQ:
		return op, true
	case token.LSS:
		return token.GTR, true
	case token.GTR:
		return token.LSS, true
	case token.LEQ:
		return token.GEQ, true
	case token.GEQ:
		return token.LEQ, true
	}
	return op, false
}

func (n *normaliser) constOrNil(e ast.Expr) bool {
	tv, ok := n.info.Types[e]
	return ok && (tv.Value != nil || tv.IsNil())
}

func (n *normaliser) copyType(from, to ast.Expr) {
	if tv, ok := n.info.Types[from]; ok {
		if _, has := n.info.Types[to]; !has {
			n.info.Types[to] = tv
		}
	}
}

// pushNot returns the expression equivalent to !e with the negation moved inwards, or nil when e is an
// operand the negation has to stay in front of.
func (n *normaliser) pushNot(e ast.Expr) ast.Expr {
	switch x := e.(type) {
	case *ast.ParenExpr:
		return n.pushNot(x.X)
	case *ast.UnaryExpr:
		if x.Op == token.NOT {
			inner := x.X
			for {
				p, ok := inner.(*ast.ParenExpr)
				if !ok {
					break
				}
				inner = p.X
			}
			switch inner.(type) {
			case *ast.BinaryExpr:
				return &ast.ParenExpr{X: inner, Lparen: inner.Pos(), Rparen: inner.End()}
			}
			return inner
		}
	case *ast.BinaryExpr:
		var op token.Token
		switch x.Op {
		case token.EQL:
			op = token.NEQ
		case token.NEQ:
			op = token.EQL
		case token.LSS:
			op = token.GEQ
		case token.GEQ:
			op = token.LSS
		case token.GTR:
			op = token.LEQ
		case token.LEQ:
			op = token.GTR
		case token.LAND, token.LOR:
			nop := token.LOR
			if x.Op == token.LOR {
				nop = token.LAND
			}
			rep := &ast.BinaryExpr{X: n.negate(x.X), Op: nop, OpPos: x.OpPos, Y: n.negate(x.Y)}
			n.copyType(x, rep)
			return &ast.ParenExpr{X: rep, Lparen: x.Pos(), Rparen: x.End()}
		default:
			return nil
		}
		if op != token.EQL && op != token.NEQ {
			if t := n.info.TypeOf(x.X); t == nil || isFloat(t) {
				return nil
			}
		}
		rep := &ast.BinaryExpr{X: x.X, Op: op, OpPos: x.OpPos, Y: x.Y}
		n.copyType(x, rep)
		return rep
	}
	return nil
}

// negate returns !e in pushed-in form.
func (n *normaliser) negate(e ast.Expr) ast.Expr {
	if rep := n.pushNot(e); rep != nil {
		n.copyType(e, rep)
		return rep
	}
	var operand ast.Expr = e
	if _, ok := e.(*ast.BinaryExpr); ok {
		operand = &ast.ParenExpr{X: e, Lparen: e.Pos(), Rparen: e.End()}
		n.copyType(e, operand)
	}
	rep := &ast.UnaryExpr{Op: token.NOT, OpPos: e.Pos(), X: operand}
	n.copyType(e, rep)
	return rep
}

func isFloat(t types.Type) bool {
	b, ok := t.Underlying().(*types.Basic)
	return ok && b.Info()&(types.IsFloat|types.IsComplex) != 0
}

// canonConst replaces a string literal by the package-level constant that has exactly that value,
// when only one has (`"Connect-Timeout-Ms"` is connectHeaderTimeout again): a rule that asks which
// header a function reads is asking about the value.
func (n *normaliser) canonConst(fd *ast.FuncDecl) {
	if n.byValue == nil {
		n.byValue = map[string]*types.Const{}
		dup := map[string]bool{}
		scope := n.pkg.Types.Scope()
		for _, name := range scope.Names() {
			c, ok := scope.Lookup(name).(*types.Const)
			if !ok || c.Val().Kind() != constant.String {
				continue
			}
			if b, isBasic := c.Type().Underlying().(*types.Basic); !isBasic || b.Info()&types.IsString == 0 {
				continue
			}
			v := constant.StringVal(c.Val())
			if len(v) < 3 {
				continue
			}
			if _, seen := n.byValue[v]; seen {
				dup[v] = true
			}
			n.byValue[v] = c
		}
		for v := range dup {
			delete(n.byValue, v)
		}
	}
	if n.byteConsts == nil {
		// integer constants of the package every use of which is a uint8 (the envelope flag bits): an
		// integer literal of type uint8 with the value of exactly one of them is that constant
		n.byteConsts = map[int64]*types.Const{}
		allByte := map[*types.Const]bool{}
		for id, o := range n.info.Uses {
			c, ok := o.(*types.Const)
			if !ok || c.Pkg() != n.pkg.Types || c.Parent() != n.pkg.Types.Scope() || c.Val().Kind() != constant.Int {
				continue
			}
			isByte := false
			if tv, ok := n.info.Types[id]; ok {
				if b, isBasic := tv.Type.Underlying().(*types.Basic); isBasic && b.Kind() == types.Uint8 {
					isByte = true
				}
			}
			if prev, seen := allByte[c]; seen {
				allByte[c] = prev && isByte
			} else {
				allByte[c] = isByte
			}
		}
		dup := map[int64]bool{}
		for c, ok := range allByte {
			if !ok {
				continue
			}
			v, exact := constant.Int64Val(c.Val())
			if !exact {
				continue
			}
			if _, seen := n.byteConsts[v]; seen {
				dup[v] = true
			}
			n.byteConsts[v] = c
		}
		for v := range dup {
			delete(n.byteConsts, v)
		}
	}
	astutil.Apply(fd.Body, func(c *astutil.Cursor) bool {
		lit, ok := c.Node().(*ast.BasicLit)
		if ok && lit.Kind == token.INT {
			tv, has := n.info.Types[lit]
			if !has || tv.Value == nil {
				return true
			}
			if b, isBasic := tv.Type.Underlying().(*types.Basic); !isBasic || b.Kind() != types.Uint8 {
				return true
			}
			v, exact := constant.Int64Val(tv.Value)
			cst := n.byteConsts[v]
			if !exact || cst == nil {
				return true
			}
			id := &ast.Ident{Name: cst.Name(), NamePos: lit.Pos()}
			n.info.Uses[id] = cst
			n.info.Types[id] = tv
			c.Replace(id)
			n.p.mutated = true
			return true
		}
		if !ok || lit.Kind != token.STRING {
			return true
		}
		tv, ok := n.info.Types[lit]
		if !ok || tv.Value == nil || tv.Value.Kind() != constant.String {
			return true
		}
		cst := n.byValue[constant.StringVal(tv.Value)]
		if cst == nil {
			return true
		}
		// only where the literal has (or takes) the constant's type: an untyped constant fits anywhere
		if b, isBasic := cst.Type().(*types.Basic); !isBasic || b.Info()&types.IsUntyped == 0 {
			if !types.Identical(tv.Type, cst.Type()) {
				return true
			}
		}
		switch c.Parent().(type) {
		case *ast.ImportSpec, *ast.Field:
			return true
		}
		id := &ast.Ident{Name: cst.Name(), NamePos: lit.Pos()}
		n.info.Uses[id] = cst
		n.info.Types[id] = tv
		c.Replace(id)
		n.p.mutated = true
		return true
	}, nil)
}

// canonNewConst replaces a use of a package-level constant that the inventory does not list (a
// literal that was given a name) by a literal of its value.
func (n *normaliser) canonNewConst(fd *ast.FuncDecl) {
	if n.base == nil {
		return
	}
	known := n.base.Decls["const"]
	astutil.Apply(fd.Body, func(c *astutil.Cursor) bool {
		id, ok := c.Node().(*ast.Ident)
		if !ok {
			return true
		}
		cst, ok := n.info.Uses[id].(*types.Const)
		if !ok || cst.Pkg() != n.pkg.Types || cst.Parent() != n.pkg.Types.Scope() {
			return true
		}
		if _, listed := known[n.pkg.PkgPath+"."+cst.Name()]; listed {
			return true
		}
		if sel, isSel := c.Parent().(*ast.SelectorExpr); isSel && sel.Sel == id {
			return true
		}
		b, ok := cst.Type().Underlying().(*types.Basic)
		if !ok {
			return true
		}
		tv, ok := n.info.Types[id]
		if !ok || tv.Value == nil {
			return true
		}
		var lit *ast.BasicLit
		switch {
		case b.Info()&types.IsString != 0 && tv.Value.Kind() == constant.String:
			lit = &ast.BasicLit{Kind: token.STRING, Value: tv.Value.ExactString(), ValuePos: id.Pos()}
		case b.Info()&types.IsInteger != 0 && tv.Value.Kind() == constant.Int:
			lit = &ast.BasicLit{Kind: token.INT, Value: tv.Value.ExactString(), ValuePos: id.Pos()}
		default:
			return true
		}
		// a typed constant keeps its type through the literal only if that type is what the context gives
		// an untyped literal anyway: keep to untyped constants and to the predeclared types
		if _, named := cst.Type().(*types.Named); named {
			return true
		}
		n.info.Types[lit] = tv
		c.Replace(lit)
		n.p.mutated = true
		return true
	}, nil)
}

package core

import (
	"fmt"
	"go/ast"
	"go/token"
	"go/types"
	"reflect"
	"sort"
	"strings"

	"golang.org/x/tools/go/ast/astutil"

	"golang.org/x/tools/go/packages"
	"verif/checker/internal/astx"
)

// Helper inlining.
//
// The rules name their anchors (functions of the pinned tree). A behaviour-preserving
// "extract helper" / "split function" refactoring moves part of an anchor into a function the
// rules have never heard of. To keep verdicts independent of such refactorings, every function
// that is NOT in the baseline inventory (checker/baseline_decls.txt, the functions of the pinned
// tree) is inlined into its callers before the rules run: statement-level calls are replaced by
// the callee's body (returns become assignments + a labelled break), calls of single-expression
// helpers are replaced by that expression. Type information is carried over to the copies, so the
// rules see the code as if the helper had never been extracted. A helper whose every call site
// was inlined is dropped from the function inventory.

type inliner struct {
	prog      *Program
	pkg       *packages.Package
	info      *types.Info
	cands     map[*types.Func]*ast.FuncDecl
	remaining map[*types.Func]int // call sites that could not be inlined
	counter   int
	Inlined   []string
	norm      *normaliser // purity oracle
	hasDefer  map[*types.Func]bool
	tail      map[ast.Stmt]bool // statements in tail position of the function being rewritten
	closureFn map[*types.Var]*types.Func
	known     func(q string, e ast.Expr) bool // is this defining expression part of the inventory of function q?

	argsDead  bool                // the call being bound ends its caller, which has no function literal and no named result
	deadTaken map[*types.Var]bool // locals of the caller already handed to a parameter of this call
	curHasLit bool

	deferCands   map[*types.Func]*ast.FuncDecl // helpers with recover(): inlined only as the body of a deferred literal
	deferInlined []*types.Func

	spread map[types.Object][]ast.Expr // variadic parameter of the callee being inlined -> the explicit arguments of this call
}

// FuncInventory lists "pkgpath.Func" / "pkgpath.Type.Method" for all first-party declarations.
func (p *Program) FuncInventory() []string {
	var out []string
	for _, pkg := range p.All {
		for _, fd := range p.AllFuncDeclsRaw(pkg) {
			out = append(out, pkg.PkgPath+"."+FuncName(fd))
		}
	}
	sort.Strings(out)
	return out
}

// InlineNewHelpers inlines every function that is not in the baseline inventory.
func (p *Program) InlineNewHelpers(baseline *Baseline) {
	for _, pkg := range p.All {
		in := &inliner{prog: p, pkg: pkg, info: pkg.TypesInfo, cands: map[*types.Func]*ast.FuncDecl{}, remaining: map[*types.Func]int{}, hasDefer: map[*types.Func]bool{}, closureFn: map[*types.Var]*types.Func{}}
		in.known = func(q string, e ast.Expr) bool { return baseline.Locals[q][exprKey(pkg.TypesInfo, e)] }
		in.norm = &normaliser{p: p, pkg: pkg, info: pkg.TypesInfo, pure: map[*types.Func]int{}, in: in, base: baseline}
		// a function that took the place of a method of the inventory (method turned into a function
		// with the receiver as a parameter) is that method under another spelling, not an extracted helper
		stoodIn := map[*ast.FuncDecl]bool{}
		for q := range baseline.Decls["func"] {
			if !strings.HasPrefix(q, pkg.PkgPath+".") {
				continue
			}
			name := q[len(pkg.PkgPath)+1:]
			if !strings.Contains(name, ".") || p.Func(pkg.PkgPath, name) != nil {
				continue
			}
			if fd := p.methodAlias(pkg.PkgPath, name); fd != nil {
				stoodIn[fd] = true
				if p.standIn == nil {
					p.standIn = map[*ast.FuncDecl]string{}
				}
				p.standIn[fd] = name
			}
		}
		for _, fd := range p.AllFuncDeclsRaw(pkg) {
			if baseline.HasFunc(pkg.PkgPath+"."+FuncName(fd)) || stoodIn[fd] {
				continue
			}
			obj, _ := in.info.Defs[fd.Name].(*types.Func)
			if obj == nil {
				continue
			}
			if !in.inlinable(fd, obj) {
				// a result-less helper that calls recover: inlinable where it is deferred directly
				if sig := obj.Type().(*types.Signature); sig.Results().Len() == 0 && in.inlinableWith(fd, obj, true) {
					if in.deferCands == nil {
						in.deferCands = map[*types.Func]*ast.FuncDecl{}
					}
					in.deferCands[obj] = fd
				}
				continue
			}
			in.cands[obj] = fd
		}
		// references before any rewriting: a new method nobody calls by name is reached through an
		// interface (a new io.Reader, a new option type) - it stays in the inventory as a function of its own
		before := map[*types.Func]int{}
		for _, fd := range p.AllFuncDeclsRaw(pkg) {
			self, _ := in.info.Defs[fd.Name].(*types.Func)
			ast.Inspect(fd.Body, func(n ast.Node) bool {
				if id, ok := n.(*ast.Ident); ok {
					if f, ok := in.info.Uses[id].(*types.Func); ok && in.cands[f] != nil && f != self {
						before[f]++
					}
				}
				return true
			})
		}
		for round := 0; round < 4; round++ {
			changed := false
			for _, fd := range p.AllFuncDeclsRaw(pkg) {
				if in.rewriteBody(fd) {
					changed = true
					p.mutated = true
				}
			}
			if !changed {
				break
			}
		}
		// helpers without remaining references disappear from the inventory
		refs := map[*types.Func]int{}
		for _, fd := range p.AllFuncDeclsRaw(pkg) {
			self, _ := in.info.Defs[fd.Name].(*types.Func)
			ast.Inspect(fd.Body, func(n ast.Node) bool {
				if id, ok := n.(*ast.Ident); ok {
					if f, ok := in.info.Uses[id].(*types.Func); ok && in.cands[f] != nil && f != self {
						refs[f]++
					}
				}
				return true
			})
		}
		// deferred helpers: hidden when no reference is left
		for _, f := range in.deferInlined {
			hd := in.deferCands[f]
			if hd == nil || p.hidden[hd] {
				continue
			}
			left := 0
			for _, fd := range p.AllFuncDeclsRaw(pkg) {
				if fd == hd {
					continue
				}
				ast.Inspect(fd.Body, func(n ast.Node) bool {
					if id, ok := n.(*ast.Ident); ok && in.info.Uses[id] == types.Object(f) {
						left++
					}
					return true
				})
			}
			if left == 0 {
				p.hidden[hd] = true
				in.Inlined = append(in.Inlined, FuncName(hd))
			}
		}
		for f, fd := range in.cands {
			if refs[f] == 0 && before[f] > 0 {
				p.hidden[fd] = true
				in.Inlined = append(in.Inlined, FuncName(fd))
			}
		}
		// the inlined bodies arrive as blocks: splice them where nothing they declare is seen elsewhere
		if len(in.Inlined) > 0 {
			for _, fd := range p.AllFuncDeclsRaw(pkg) {
				if !p.hidden[fd] {
					for round := 0; round < 4 && in.norm.coalesceMultiCopies(fd); round++ {
					}
					in.norm.canonCompare(fd) // `*(&x)` left by pointer arguments
					in.norm.canonArrayTable(fd)
					// a state struct handed from phase to phase is, with the phases inlined, a bundle of locals
					in.norm.scalarReplace(fd)
					// locals that came in with inlined bodies (or out of a split struct) and only abbreviate a read
					for round := 0; round < 3; round++ {
						if !in.norm.substituteLocals(fd, pkg.PkgPath+"."+FuncName(fd), baseline.Locals[pkg.PkgPath+"."+FuncName(fd)]) {
							break
						}
					}
					// a tagged switch that came in with an inlined body is new to this function
					in.norm.canonSwitch(fd, baseline.Tags[pkg.PkgPath+"."+FuncName(fd)])
					in.norm.coalesceCopies(fd) // inside the inlined block, before `x := y; if …` can become an if with init
					in.norm.canonShape(fd)
					if in.norm.coalesceCopies(fd) {
						in.norm.canonShape(fd)
					}
				}
			}
		}
		sort.Strings(in.Inlined)
		p.InlinedHelpers = append(p.InlinedHelpers, in.Inlined...)
	}
}

func (in *inliner) inlinable(fd *ast.FuncDecl, obj *types.Func) bool {
	return in.inlinableWith(fd, obj, false)
}

// inlinableWith: allowRecover admits a helper that calls recover - such a helper can only stand in a
// defer statement, where it is inlined as the body of a deferred function literal.
func (in *inliner) inlinableWith(fd *ast.FuncDecl, obj *types.Func, allowRecover bool) bool {
	if fd.Body == nil {
		return false
	}
	sig := obj.Type().(*types.Signature)
	if sig.RecvTypeParams().Len() > 0 {
		return false
	}
	// a variadic helper whose variadic parameter is only ever forwarded (`g(…, args...)`): at an inlined call
	// the explicit arguments take its place
	if sig.Variadic() {
		if fd.Type.Params == nil || len(fd.Type.Params.List) == 0 {
			return false
		}
		lastField := fd.Type.Params.List[len(fd.Type.Params.List)-1]
		if len(lastField.Names) != 1 {
			return false
		}
		vp := in.info.Defs[lastField.Names[0]]
		forwardedOnly := vp != nil
		var stack []ast.Node
		ast.Inspect(fd.Body, func(n ast.Node) bool {
			if n == nil {
				stack = stack[:len(stack)-1]
				return false
			}
			stack = append(stack, n)
			id, isID := n.(*ast.Ident)
			if !isID || in.info.Uses[id] != vp {
				return true
			}
			call, isCall := stack[len(stack)-2].(*ast.CallExpr)
			if !isCall || !call.Ellipsis.IsValid() || len(call.Args) == 0 || call.Args[len(call.Args)-1] != ast.Expr(id) {
				forwardedOnly = false
			}
			return true
		})
		if !forwardedOnly {
			return false
		}
	}
	// a generic function whose body never names its type parameters (they only type the parameters: a
	// loop over a []T calling a method of T's constraint) reads the same for every instantiation
	if sig.TypeParams().Len() > 0 && singleExpr(fd) != nil {
		// a one-expression generic constructor (`func newX[T any](f F) G { return func(…) {…} }`): the
		// expression reads the same for every instantiation
	} else if sig.TypeParams().Len() > 0 {
		namesT := false
		ast.Inspect(fd.Body, func(n ast.Node) bool {
			if id, isID := n.(*ast.Ident); isID {
				if tn, isTN := in.info.Uses[id].(*types.TypeName); isTN {
					if _, isTP := tn.Type().(*types.TypeParam); isTP {
						namesT = true
					}
				}
			}
			return !namesT
		})
		if namesT {
			return false
		}
		// …and only when every type parameter is constrained by a named interface with methods (the body
		// then calls those methods: `for _, o := range opts { o.applyToClient(c) }`); helpers over `any`
		// are plumbing that the rules follow as calls
		for i := 0; i < sig.TypeParams().Len(); i++ {
			iface, isIface := sig.TypeParams().At(i).Constraint().Underlying().(*types.Interface)
			if !isIface || iface.NumMethods() == 0 {
				return false
			}
		}
	}
	if fd.Name.Name == "init" || fd.Name.Name == "main" {
		return false
	}
	ok := true
	ast.Inspect(fd.Body, func(n ast.Node) bool {
		switch x := n.(type) {
		case *ast.FuncLit:
			return false
		case *ast.DeferStmt:
			// inlinable only in tail position of the caller (the deferred calls then run at the same moment)
			in.hasDefer[obj] = true
			// a deferred call may write the helper's named results after its return statement ran; the
			// caller has no such result slots, so the helper keeps its own frame
			for i := 0; i < sig.Results().Len(); i++ {
				if nm := sig.Results().At(i).Name(); nm != "" && nm != "_" {
					ok = false
				}
			}
		case *ast.GoStmt, *ast.LabeledStmt, *ast.SelectStmt:
			ok = false
		case *ast.ReturnStmt:
			if len(x.Results) == 0 && sig.Results().Len() > 0 {
				ok = false // bare return with named results
			}
		case *ast.CallExpr:
			if id, isID := x.Fun.(*ast.Ident); isID {
				if b, isB := in.info.Uses[id].(*types.Builtin); isB && b.Name() == "recover" && !allowRecover {
					ok = false
				}
				if f, isF := in.info.Uses[id].(*types.Func); isF && f == obj {
					ok = false // recursion
				}
			}
		}
		return true
	})
	return ok
}

// singleExpr returns the expression of a `return expr` only body.
func singleExpr(fd *ast.FuncDecl) ast.Expr {
	if len(fd.Body.List) != 1 {
		return nil
	}
	ret, ok := fd.Body.List[0].(*ast.ReturnStmt)
	if !ok || len(ret.Results) != 1 {
		return nil
	}
	return ret.Results[0]
}

func (in *inliner) calleeOf(call *ast.CallExpr) (*types.Func, *ast.FuncDecl, ast.Expr) {
	var id *ast.Ident
	var recv ast.Expr
	fun := call.Fun
	// an explicit instantiation f[T](…)
	if ix, isIx := fun.(*ast.IndexExpr); isIx {
		fun = ix.X
	} else if ixl, isIxl := fun.(*ast.IndexListExpr); isIxl {
		fun = ixl.X
	}
	switch f := fun.(type) {
	case *ast.Ident:
		id = f
	case *ast.SelectorExpr:
		id = f.Sel
		if sel := in.info.Selections[f]; sel != nil && sel.Kind() == types.MethodVal {
			recv = f.X
			if len(sel.Index()) > 1 {
				return nil, nil, nil // promoted through embedding: keep it simple
			}
		}
	default:
		return nil, nil, nil
	}
	fn, _ := in.info.Uses[id].(*types.Func)
	if fn != nil && fn.Origin() != nil {
		fn = fn.Origin()
	}
	if fn == nil {
		// a local closure that is only ever called (see closureCands)
		if v, ok := in.info.Uses[id].(*types.Var); ok && in.closureFn[v] != nil && recv == nil {
			fn = in.closureFn[v]
		}
	}
	if fn == nil {
		return nil, nil, nil
	}
	fd := in.cands[fn]
	if fd == nil {
		return nil, nil, nil
	}
	return fn, fd, recv
}

func (in *inliner) simpleArg(e ast.Expr) bool {
	switch x := e.(type) {
	case *ast.Ident, *ast.BasicLit:
		return true
	case *ast.ParenExpr:
		return in.simpleArg(x.X)
	case *ast.SelectorExpr:
		return in.simpleArg(x.X)
	case *ast.StarExpr:
		return in.simpleArg(x.X)
	case *ast.UnaryExpr:
		return (x.Op == token.AND || x.Op == token.SUB || x.Op == token.NOT) && in.simpleArg(x.X)
	case *ast.IndexExpr:
		return in.simpleArg(x.X) && in.simpleArg(x.Index)
	case *ast.BinaryExpr:
		// arithmetic and flag combinations of simple operands (`env.Flags | flagCompressed`)
		return in.simpleArg(x.X) && in.simpleArg(x.Y)
	case *ast.CallExpr:
		// conversions and len/cap of simple operands
		if tv, ok := in.info.Types[x.Fun]; ok && tv.IsType() && len(x.Args) == 1 {
			return in.simpleArg(x.Args[0])
		}
		if id, ok := x.Fun.(*ast.Ident); ok {
			if b, ok := in.info.Uses[id].(*types.Builtin); ok && (b.Name() == "len" || b.Name() == "cap") && len(x.Args) == 1 {
				return in.simpleArg(x.Args[0])
			}
		}
	}
	if tv, ok := in.info.Types[e]; ok && tv.Value != nil {
		return true
	}
	return false
}

// useCount counts the identifiers in body that refer to obj.
func (in *inliner) useCount(body ast.Node, obj types.Object) int {
	n := 0
	ast.Inspect(body, func(x ast.Node) bool {
		if id, ok := x.(*ast.Ident); ok && in.info.Uses[id] == obj {
			n++
		}
		return true
	})
	return n
}

// paramAssigned reports whether obj is assigned or has its address taken in body.
func (in *inliner) paramAssigned(body ast.Node, obj types.Object) bool {
	found := false
	ast.Inspect(body, func(n ast.Node) bool {
		switch x := n.(type) {
		case *ast.AssignStmt:
			for _, l := range x.Lhs {
				if id, ok := l.(*ast.Ident); ok && (in.info.Uses[id] == obj || in.info.Defs[id] == obj) {
					found = true
				}
			}
		case *ast.IncDecStmt:
			if id, ok := x.X.(*ast.Ident); ok && in.info.Uses[id] == obj {
				found = true
			}
		case *ast.UnaryExpr:
			if id, ok := x.X.(*ast.Ident); ok && x.Op == token.AND && in.info.Uses[id] == obj {
				found = true
			}
		case *ast.RangeStmt:
			for _, e := range []ast.Expr{x.Key, x.Value} {
				if id, ok := e.(*ast.Ident); ok && in.info.Uses[id] == obj {
					found = true
				}
			}
		}
		return true
	})
	return found
}

// clone deep-copies an AST subtree, carrying type information over to the copy. subst maps
// variables to replacement expressions (parameter substitution).
func (in *inliner) clone(n ast.Node, subst map[types.Object]ast.Expr) ast.Node {
	if n == nil {
		return nil
	}
	v := in.cloneValue(reflect.ValueOf(n), subst)
	out, _ := v.Interface().(ast.Node)
	return out
}

var (
	objType   = reflect.TypeOf((*ast.Object)(nil))
	scopeType = reflect.TypeOf((*ast.Scope)(nil))
)

func (in *inliner) cloneValue(v reflect.Value, subst map[types.Object]ast.Expr) reflect.Value {
	switch v.Kind() {
	case reflect.Interface:
		if v.IsNil() {
			return v
		}
		c := in.cloneValue(v.Elem(), subst)
		out := reflect.New(v.Type()).Elem()
		out.Set(c)
		return out
	case reflect.Ptr:
		if v.IsNil() || v.Type() == objType || v.Type() == scopeType {
			return reflect.Zero(v.Type())
		}
		// `g(a, args...)` with args the variadic parameter of the helper being inlined: g(a, x1, x2)
		if call, ok := v.Interface().(*ast.CallExpr); ok && call.Ellipsis.IsValid() && len(call.Args) > 0 && in.spread != nil {
			if id, isID := call.Args[len(call.Args)-1].(*ast.Ident); isID {
				if extras, isSpread := in.spread[in.info.Uses[id]]; isSpread {
					nc := &ast.CallExpr{Lparen: call.Lparen, Rparen: call.Rparen}
					nc.Fun = in.clone(call.Fun, subst).(ast.Expr)
					for _, a := range call.Args[:len(call.Args)-1] {
						nc.Args = append(nc.Args, in.clone(a, subst).(ast.Expr))
					}
					for _, e := range extras {
						nc.Args = append(nc.Args, in.clone(e, nil).(ast.Expr))
					}
					in.copyInfo(call, nc)
					return reflect.ValueOf(nc)
				}
			}
		}
		if id, ok := v.Interface().(*ast.Ident); ok && subst != nil {
			if obj := in.info.Uses[id]; obj != nil {
				if rep, ok := subst[obj]; ok {
					c := in.clone(rep, nil).(ast.Expr)
					if _, isIdent := c.(*ast.Ident); !isIdent {
						if _, isLit := c.(*ast.BasicLit); !isLit {
							p := &ast.ParenExpr{X: c}
							if tv, ok := in.info.Types[rep]; ok {
								in.info.Types[p] = tv
							}
							return reflect.ValueOf(ast.Expr(p)).Convert(reflect.TypeOf((*ast.Expr)(nil)).Elem())
						}
					}
					return reflect.ValueOf(c)
				}
			}
		}
		out := reflect.New(v.Type().Elem())
		elem := v.Elem()
		for i := 0; i < elem.NumField(); i++ {
			f := elem.Field(i)
			if !out.Elem().Field(i).CanSet() {
				continue
			}
			out.Elem().Field(i).Set(in.cloneField(f, subst))
		}
		in.copyInfo(v.Interface(), out.Interface())
		return out
	case reflect.Slice:
		if v.IsNil() {
			return v
		}
		out := reflect.MakeSlice(v.Type(), v.Len(), v.Len())
		for i := 0; i < v.Len(); i++ {
			out.Index(i).Set(in.cloneField(v.Index(i), subst))
		}
		return out
	}
	return v
}

// cloneField clones a struct field / slice element, taking care that a substituted identifier
// (which may become a non-identifier expression) fits the field's static type.
func (in *inliner) cloneField(f reflect.Value, subst map[types.Object]ast.Expr) reflect.Value {
	c := in.cloneValue(f, subst)
	if !c.IsValid() {
		return reflect.Zero(f.Type())
	}
	if c.Type().AssignableTo(f.Type()) {
		return c
	}
	if c.Type().ConvertibleTo(f.Type()) {
		return c.Convert(f.Type())
	}
	// a *ast.Ident field (e.g. SelectorExpr.Sel, label) whose substitution is not an identifier: keep the original
	return in.cloneValue(f, nil)
}

func (in *inliner) copyInfo(old, new any) {
	if oe, ok := old.(ast.Expr); ok {
		if tv, ok := in.info.Types[oe]; ok {
			in.info.Types[new.(ast.Expr)] = tv
		}
	}
	switch o := old.(type) {
	case *ast.Ident:
		n := new.(*ast.Ident)
		if obj := in.info.Uses[o]; obj != nil {
			in.info.Uses[n] = obj
		}
		if obj := in.info.Defs[o]; obj != nil {
			// a definition inside an inlined body is a (re)assignment of the same object
			in.info.Defs[n] = obj
		}
	case *ast.SelectorExpr:
		if s := in.info.Selections[o]; s != nil {
			in.info.Selections[new.(*ast.SelectorExpr)] = s
		}
	}
	if on, ok := old.(ast.Node); ok {
		if obj := in.info.Implicits[on]; obj != nil {
			in.info.Implicits[new.(ast.Node)] = obj
		}
	}
}

// bindParams returns the substitution map and the prologue statements (`p := arg`) for one call.
func (in *inliner) bindParams(fd *ast.FuncDecl, call *ast.CallExpr, recv ast.Expr) (map[types.Object]ast.Expr, []ast.Stmt, bool) {
	subst := map[types.Object]ast.Expr{}
	var prologue []ast.Stmt
	bind := func(name *ast.Ident, arg ast.Expr) {
		if name == nil || name.Name == "_" {
			if !in.simpleArg(arg) {
				prologue = append(prologue, &ast.ExprStmt{X: arg})
			}
			return
		}
		obj := in.info.Defs[name]
		if obj == nil {
			return
		}
		if in.simpleArg(arg) && !in.paramAssigned(fd.Body, obj) {
			subst[obj] = arg
			return
		}
		// the caller ends with this call and hands over a local of its own that nothing can look at
		// afterwards: the callee may as well work on that local (what `x := x` would only copy)
		if in.argsDead {
			if id, ok := arg.(*ast.Ident); ok {
				if v, ok := in.info.Uses[id].(*types.Var); ok && !v.IsField() && v.Pkg() != nil && v.Parent() != v.Pkg().Scope() && !in.deadTaken[v] {
					if in.deadTaken == nil {
						in.deadTaken = map[*types.Var]bool{}
					}
					in.deadTaken[v] = true
					subst[obj] = arg
					return
				}
			}
		}
		// a pure argument (a lookup like pools.Get(name)) handed to a helper that consists of one
		// expression and uses the parameter once: evaluated at its single use instead of up front
		if singleExpr(fd) != nil && in.norm != nil && in.norm.pureExpr(arg, 0) && !in.paramAssigned(fd.Body, obj) && in.useCount(fd.Body, obj) <= 1 {
			subst[obj] = arg
			return
		}
		lhs := &ast.Ident{Name: name.Name, NamePos: name.NamePos}
		in.info.Defs[lhs] = obj
		prologue = append(prologue, &ast.AssignStmt{Lhs: []ast.Expr{lhs}, Tok: token.DEFINE, Rhs: []ast.Expr{arg}})
	}
	if fd.Recv != nil && len(fd.Recv.List) == 1 {
		if recv == nil {
			return nil, nil, false
		}
		var rn *ast.Ident
		if len(fd.Recv.List[0].Names) == 1 {
			rn = fd.Recv.List[0].Names[0]
		}
		// pointer/value receiver adjustments do not matter for the analysis: identities of field selections are kept
		bind(rn, recv)
	}
	var names []*ast.Ident
	for _, f := range fd.Type.Params.List {
		if len(f.Names) == 0 {
			names = append(names, nil)
		}
		names = append(names, f.Names...)
	}
	in.spread = nil
	if sig, _ := in.info.Defs[fd.Name].Type().(*types.Signature); sig != nil && sig.Variadic() {
		fixed := len(names) - 1
		if call.Ellipsis.IsValid() || fixed < 0 || len(call.Args) < fixed || names[fixed] == nil {
			return nil, nil, false
		}
		for _, extra := range call.Args[fixed:] {
			if !in.simpleArg(extra) {
				return nil, nil, false
			}
		}
		for i := 0; i < fixed; i++ {
			bind(names[i], call.Args[i])
		}
		in.spread = map[types.Object][]ast.Expr{in.info.Defs[names[fixed]]: call.Args[fixed:]}
		return subst, prologue, true
	}
	if len(names) != len(call.Args) {
		return nil, nil, false
	}
	for i, a := range call.Args {
		bind(names[i], a)
	}
	return subst, prologue, true
}

// rewriteBody inlines candidate calls inside fd; reports whether anything changed.
func (in *inliner) rewriteBody(fd *ast.FuncDecl) bool {
	if fd.Body == nil {
		return false
	}
	self, _ := in.info.Defs[fd.Name].(*types.Func)
	changed := false
	closureDefs := in.closureCands(fd)
	in.tail = map[ast.Stmt]bool{}
	// a function literal (deferred or not) may look at the caller's locals after a tail call; so may the
	// caller of a function with named results
	in.curHasLit = false
	ast.Inspect(fd, func(n ast.Node) bool {
		if _, ok := n.(*ast.FuncLit); ok {
			in.curHasLit = true
		}
		return !in.curHasLit
	})
	if fd.Type.Results != nil {
		for _, r := range fd.Type.Results.List {
			if len(r.Names) > 0 {
				in.curHasLit = true
			}
		}
	}
	if n := len(fd.Body.List); n > 0 {
		last := fd.Body.List[n-1]
		in.tail[last] = true
		if ret, ok := last.(*ast.ReturnStmt); ok && len(ret.Results) == 0 && n > 1 {
			in.tail[fd.Body.List[n-2]] = true
		}
	}
	// pass 0: a helper called inside a larger expression is given a statement of its own
	astutil.Apply(fd.Body, nil, func(c *astutil.Cursor) bool {
		stmt, ok := c.Node().(ast.Stmt)
		if !ok || c.Index() < 0 || stmtList(c.Parent()) == nil {
			return true
		}
		if pre := in.hoistNested(stmt, self); pre != nil {
			c.InsertBefore(pre)
			changed = true
		}
		return true
	})
	// pass 1: statement-level
	astutil.Apply(fd.Body, nil, func(c *astutil.Cursor) bool {
		stmt, ok := c.Node().(ast.Stmt)
		if !ok {
			return true
		}
		if c.Name() == "Init" || c.Name() == "Post" {
			return true // handled with the enclosing statement (a block cannot stand there)
		}
		// `defer helper(args)` with a helper that recovers: `defer func() { <helper body> }()`
		if d, isDefer := stmt.(*ast.DeferStmt); isDefer {
			if rep := in.inlineDefer(d, self); rep != nil {
				c.Replace(rep)
				changed = true
			}
			return true
		}
		// `v, err := helper(); if err != nil { ... }`: the check moves to the helper's return sites
		if as, isAssign := stmt.(*ast.AssignStmt); isAssign && c.Index() >= 0 {
			if list := stmtList(c.Parent()); list != nil && c.Index()+1 < len(list) {
				if next, isIf := list[c.Index()+1].(*ast.IfStmt); isIf && next.Init == nil && in.nilCheckOf(next, as) != nil {
					if rep := in.inlineStmt(stmt, self, next); rep != nil {
						c.Replace(rep)
						list[c.Index()+1] = &ast.EmptyStmt{Semicolon: next.Pos(), Implicit: true}
						changed = true
						return true
					}
				}
			}
		}
		if rep := in.inlineStmt(stmt, self, nil); rep != nil {
			c.Replace(rep)
			changed = true
		}
		return true
	})
	// pass 2: expression-level for single-expression helpers
	astutil.Apply(fd.Body, nil, func(c *astutil.Cursor) bool {
		call, ok := c.Node().(*ast.CallExpr)
		if !ok {
			return true
		}
		fn, hd, recv := in.calleeOf(call)
		if hd == nil || fn == self {
			return true
		}
		expr := singleExpr(hd)
		if expr == nil {
			return true
		}
		subst, prologue, ok := in.bindParams(hd, call, recv)
		if !ok || len(prologue) > 0 {
			return true
		}
		rep := &ast.ParenExpr{X: in.clone(expr, subst).(ast.Expr), Lparen: call.Pos(), Rparen: call.End()}
		if tv, ok := in.info.Types[call]; ok {
			in.info.Types[rep] = tv
		}
		c.Replace(rep)
		changed = true
		return true
	})
	// a closure whose every call was inlined disappears
	for v, def := range closureDefs {
		used := false
		ast.Inspect(fd.Body, func(n ast.Node) bool {
			if id, ok := n.(*ast.Ident); ok && in.info.Uses[id] == types.Object(v) {
				used = true
			}
			return true
		})
		if used {
			continue
		}
		astutil.Apply(fd.Body, nil, func(c *astutil.Cursor) bool {
			if c.Node() == ast.Node(def) && c.Index() >= 0 {
				c.Delete()
				changed = true
			}
			return true
		})
		delete(in.cands, in.closureFn[v])
		delete(in.closureFn, v)
	}
	return changed
}

// closureCands registers local function literals `name := func(…) {…}` that the inventory of fd
// does not list, are never reassigned and are only ever called directly: they are inlined like
// extracted helpers (they capture variables of the same function, so the copy refers to the same
// objects).
func (in *inliner) closureCands(fd *ast.FuncDecl) map[*types.Var]ast.Stmt {
	out := map[*types.Var]ast.Stmt{}
	if in.known == nil {
		return out
	}
	q := in.pkg.PkgPath + "." + FuncName(fd)
	ast.Inspect(fd.Body, func(n ast.Node) bool {
		as, ok := n.(*ast.AssignStmt)
		if !ok || as.Tok != token.DEFINE || len(as.Lhs) != 1 || len(as.Rhs) != 1 {
			return true
		}
		lit, ok := as.Rhs[0].(*ast.FuncLit)
		id, ok2 := as.Lhs[0].(*ast.Ident)
		if !ok || !ok2 || in.known(q, lit) {
			return true
		}
		v, _ := in.info.Defs[id].(*types.Var)
		sig, _ := in.info.TypeOf(lit).(*types.Signature)
		if v == nil || sig == nil || sig.Variadic() {
			return true
		}
		if _, dup := in.closureFn[v]; dup {
			out[v] = as
			return true
		}
		// every use is the function position of a call; never assigned again
		okUses := true
		ast.Inspect(fd.Body, func(x ast.Node) bool {
			switch y := x.(type) {
			case *ast.CallExpr:
				if fid, isID := y.Fun.(*ast.Ident); isID && in.info.Uses[fid] == types.Object(v) {
					for _, a := range y.Args {
						ast.Inspect(a, func(z ast.Node) bool {
							if zid, isID := z.(*ast.Ident); isID && in.info.Uses[zid] == types.Object(v) {
								okUses = false
							}
							return true
						})
					}
					return false
				}
			case *ast.DeferStmt:
				if fid, isID := y.Call.Fun.(*ast.Ident); isID && in.info.Uses[fid] == types.Object(v) {
					okUses = false
				}
			case *ast.GoStmt:
				if fid, isID := y.Call.Fun.(*ast.Ident); isID && in.info.Uses[fid] == types.Object(v) {
					okUses = false
				}
			case *ast.Ident:
				if in.info.Uses[y] == types.Object(v) {
					okUses = false
				}
			case *ast.AssignStmt:
				if y != as {
					for _, l := range y.Lhs {
						if lid, isID := l.(*ast.Ident); isID && in.info.Uses[lid] == types.Object(v) {
							okUses = false
						}
					}
				}
			}
			return true
		})
		if !okUses {
			return true
		}
		fobj := types.NewFunc(id.Pos(), in.pkg.Types, id.Name, sig)
		decl := &ast.FuncDecl{Name: id, Type: lit.Type, Body: lit.Body}
		if !in.inlinable(decl, fobj) {
			return true
		}
		in.closureFn[v] = fobj
		in.cands[fobj] = decl
		out[v] = as
		return true
	})
	return out
}

// inlineStmt returns the replacement of a statement that consists of a call to a candidate.
func (in *inliner) inlineStmt(stmt ast.Stmt, self *types.Func, cont *ast.IfStmt) ast.Stmt {
	var call *ast.CallExpr
	var lhs []ast.Expr
	kind := ""
	switch s := stmt.(type) {
	case *ast.ExprStmt:
		call, _ = s.X.(*ast.CallExpr)
		kind = "expr"
	case *ast.AssignStmt:
		if len(s.Rhs) == 1 && (s.Tok == token.ASSIGN || s.Tok == token.DEFINE) {
			call, _ = s.Rhs[0].(*ast.CallExpr)
			lhs = s.Lhs
			kind = "assign"
		}
	case *ast.ReturnStmt:
		if len(s.Results) == 1 {
			call, _ = s.Results[0].(*ast.CallExpr)
			kind = "return"
		}
	case *ast.IfStmt:
		if s.Init != nil {
			if in.nilCheckOf(s, s.Init) != nil {
				if rep := in.inlineStmt(s.Init, self, s); rep != nil {
					return rep
				}
			}
			if rep := in.inlineStmt(s.Init, self, nil); rep != nil {
				return &ast.BlockStmt{Lbrace: s.Pos(), Rbrace: s.End(), List: []ast.Stmt{rep, &ast.IfStmt{If: s.If, Cond: s.Cond, Body: s.Body, Else: s.Else}}}
			}
		}
		return nil
	}
	if call == nil {
		return nil
	}
	fn, hd, recv := in.calleeOf(call)
	if hd == nil || fn == self {
		return nil
	}
	if in.hasDefer[fn] && !(kind == "return" || (kind == "expr" && in.tail[stmt])) {
		return nil
	}
	if kind != "return" && singleExpr(hd) != nil {
		if _, prologue, ok := in.bindParams(hd, call, recv); ok && len(prologue) == 0 {
			return nil // the expression-level pass handles it, keeping the statement shape
		}
	}
	in.argsDead = (kind == "return" || (kind == "expr" && in.tail[stmt])) && !in.curHasLit
	in.deadTaken = nil
	subst, prologue, ok := in.bindParams(hd, call, recv)
	in.argsDead = false
	if !ok {
		return nil
	}
	sig := fn.Type().(*types.Signature)
	if kind == "assign" && len(lhs) != sig.Results().Len() {
		return nil
	}
	body := in.clone(hd.Body, subst).(*ast.BlockStmt)
	in.counter++
	label := &ast.Ident{Name: fmt.Sprintf("_inl%d", in.counter)}
	needsLabel := false
	// rewrite returns (not inside function literals)
	var rewrite func(list []ast.Stmt) []ast.Stmt
	rewriteStmt := func(s ast.Stmt) ast.Stmt { return s }
	_ = rewriteStmt
	var fix func(n ast.Node)
	fix = func(n ast.Node) {
		astutil.Apply(n, func(c *astutil.Cursor) bool {
			if _, isLit := c.Node().(*ast.FuncLit); isLit {
				return false
			}
			return true
		}, func(c *astutil.Cursor) bool {
			ret, ok := c.Node().(*ast.ReturnStmt)
			if !ok {
				return true
			}
			switch kind {
			case "return":
				return true // returns of the callee become returns of the caller
			case "expr":
				needsLabel = true
				var stmts []ast.Stmt
				for _, r := range ret.Results {
					if _, isCall := r.(*ast.CallExpr); isCall {
						stmts = append(stmts, &ast.ExprStmt{X: r})
					}
				}
				stmts = append(stmts, &ast.BranchStmt{Tok: token.BREAK, Label: label, TokPos: ret.Pos()})
				c.Replace(&ast.BlockStmt{Lbrace: ret.Pos(), Rbrace: ret.End(), List: stmts})
			case "assign":
				needsLabel = true
				var l []ast.Expr
				for _, e := range lhs {
					l = append(l, in.cloneLHS(e))
				}
				rhs := ret.Results
				as := &ast.AssignStmt{Lhs: l, Tok: token.ASSIGN, TokPos: ret.Pos(), Rhs: rhs}
				stmts := []ast.Stmt{as}
				if cont != nil {
					stmts = in.foldNilCheck(cont, as, in.nilCheckOf(cont, stmt))
				}
				stmts = append(stmts, &ast.BranchStmt{Tok: token.BREAK, Label: label, TokPos: ret.Pos()})
				c.Replace(&ast.BlockStmt{Lbrace: ret.Pos(), Rbrace: ret.End(), List: stmts})
			}
			return true
		})
	}
	_ = rewrite
	// a callee whose only return is its last statement needs no jump: its body, then the assignment
	if cont == nil && (kind == "assign" || kind == "expr") && len(body.List) > 0 {
		if last, ok := body.List[len(body.List)-1].(*ast.ReturnStmt); ok && countReturns(body) == 1 {
			list := append(prologue, body.List[:len(body.List)-1]...)
			switch kind {
			case "expr":
				for _, r := range last.Results {
					if _, isCall := r.(*ast.CallExpr); isCall {
						list = append(list, &ast.ExprStmt{X: r})
					}
				}
			case "assign":
				as := stmt.(*ast.AssignStmt)
				list = append(list, &ast.AssignStmt{Lhs: as.Lhs, Tok: as.Tok, TokPos: last.Pos(), Rhs: last.Results})
			}
			return &ast.BlockStmt{Lbrace: stmt.Pos(), Rbrace: stmt.End(), List: list}
		}
	}
	fix(body)
	list := append(prologue, body.List...)
	if kind == "return" {
		if sig.Results().Len() == 0 {
			list = append(list, &ast.ReturnStmt{Return: stmt.End()})
		}
		return &ast.BlockStmt{Lbrace: stmt.Pos(), Rbrace: stmt.End(), List: list}
	}
	if !needsLabel {
		return &ast.BlockStmt{Lbrace: stmt.Pos(), Rbrace: stmt.End(), List: list}
	}
	sw := &ast.SwitchStmt{Switch: stmt.Pos(), Body: &ast.BlockStmt{Lbrace: stmt.Pos(), Rbrace: stmt.End(), List: []ast.Stmt{
		&ast.CaseClause{Case: stmt.Pos(), Body: body.List},
	}}}
	labeled := &ast.LabeledStmt{Label: label, Colon: stmt.Pos(), Stmt: sw}
	return &ast.BlockStmt{Lbrace: stmt.Pos(), Rbrace: stmt.End(), List: append(prologue, labeled)}
}

// countReturns counts the return statements of a body, those of function literals excluded.
func countReturns(body ast.Node) int {
	n := 0
	ast.Inspect(body, func(x ast.Node) bool {
		switch x.(type) {
		case *ast.FuncLit:
			return false
		case *ast.ReturnStmt:
			n++
		}
		return true
	})
	return n
}

// inlineDefer turns `defer h(args)`, h a result-less new helper that calls recover, into the binding of its
// arguments (they are evaluated when the defer statement runs) followed by `defer func() { body }()`.
func (in *inliner) inlineDefer(d *ast.DeferStmt, self *types.Func) ast.Stmt {
	var id *ast.Ident
	var recv ast.Expr
	switch f := d.Call.Fun.(type) {
	case *ast.Ident:
		id = f
	case *ast.SelectorExpr:
		id = f.Sel
		if sel := in.info.Selections[f]; sel != nil && sel.Kind() == types.MethodVal && len(sel.Index()) == 1 {
			recv = f.X
		}
	default:
		return nil
	}
	fn, _ := in.info.Uses[id].(*types.Func)
	if fn == nil || fn == self {
		return nil
	}
	hd := in.deferCands[fn]
	if hd == nil {
		return nil
	}
	subst, prologue, ok := in.bindParams(hd, d.Call, recv)
	if !ok {
		return nil
	}
	body := in.clone(hd.Body, subst).(*ast.BlockStmt)
	lit := &ast.FuncLit{Type: &ast.FuncType{Func: d.Pos(), Params: &ast.FieldList{}}, Body: body}
	in.info.Types[lit] = types.TypeAndValue{Type: types.NewSignatureType(nil, nil, nil, nil, nil, false)}
	call := &ast.CallExpr{Fun: lit, Lparen: d.Call.Lparen, Rparen: d.Call.Rparen}
	in.info.Types[call] = types.TypeAndValue{Type: types.NewTuple()}
	nd := &ast.DeferStmt{Defer: d.Defer, Call: call}
	delete(in.deferCands, nil)
	in.deferInlined = append(in.deferInlined, fn)
	if len(prologue) == 0 {
		return nd
	}
	return &ast.BlockStmt{Lbrace: d.Pos(), Rbrace: d.End(), List: append(prologue, nd)}
}

// cloneLHS copies an assignment target of the caller; a defining identifier becomes a use of the same object.
func (in *inliner) cloneLHS(e ast.Expr) ast.Expr {
	if id, ok := e.(*ast.Ident); ok {
		n := &ast.Ident{Name: id.Name, NamePos: id.NamePos}
		obj := in.info.Defs[id]
		if obj == nil {
			obj = in.info.Uses[id]
		}
		if obj != nil {
			in.info.Uses[n] = obj
		}
		if tv, ok := in.info.Types[id]; ok {
			in.info.Types[n] = tv
		}
		return n
	}
	return in.clone(e, nil).(ast.Expr)
}

func stmtList(n ast.Node) []ast.Stmt {
	switch x := n.(type) {
	case *ast.BlockStmt:
		return x.List
	case *ast.CaseClause:
		return x.Body
	case *ast.CommClause:
		return x.Body
	}
	return nil
}

// nilCheckOf returns the variable v when ifs is `if v != nil { body }` (no else, no branch
// statements in body) and v is assigned by the statement assign.
func (in *inliner) nilCheckOf(ifs *ast.IfStmt, assign ast.Stmt) types.Object {
	as, ok := assign.(*ast.AssignStmt)
	if !ok || ifs.Else != nil {
		return nil
	}
	be, ok := ifs.Cond.(*ast.BinaryExpr)
	if !ok || be.Op != token.NEQ || !astx.IsNil(in.info, be.Y) {
		return nil
	}
	v := astx.ObjOf(in.info, be.X)
	if _, isVar := v.(*types.Var); !isVar {
		return nil
	}
	found := false
	for _, l := range as.Lhs {
		if id, isID := l.(*ast.Ident); isID && astx.ObjOf(in.info, id) == v {
			found = true
		}
	}
	if !found {
		return nil
	}
	clean := true
	ast.Inspect(ifs.Body, func(n ast.Node) bool {
		switch n.(type) {
		case *ast.FuncLit:
			return false
		case *ast.BranchStmt, *ast.LabeledStmt:
			clean = false
		}
		return true
	})
	if !clean {
		return nil
	}
	return v
}

// foldNilCheck specialises `if v != nil { body }` for one return site of an inlined helper whose
// results are assigned by as: dropped when the returned value is the nil literal, unconditional
// when it cannot be nil (and `return v` then returns the value itself), kept otherwise.
func (in *inliner) foldNilCheck(cont *ast.IfStmt, as *ast.AssignStmt, v types.Object) []ast.Stmt {
	idx := -1
	for i, l := range as.Lhs {
		if id, isID := l.(*ast.Ident); isID && astx.ObjOf(in.info, id) == v {
			idx = i
		}
	}
	generic := func() []ast.Stmt {
		c := in.clone(cont, nil).(*ast.IfStmt)
		c.Init = nil
		return []ast.Stmt{as, c}
	}
	if idx < 0 || len(as.Lhs) != len(as.Rhs) {
		return generic()
	}
	x := as.Rhs[idx]
	switch {
	case astx.IsNil(in.info, x):
		return []ast.Stmt{as}
	case astx.NeverNil(in.info, x):
		uses := 0
		ast.Inspect(cont.Body, func(n ast.Node) bool {
			if id, isID := n.(*ast.Ident); isID && in.info.Uses[id] == v {
				uses++
			}
			return true
		})
		if ret, isRet := cont.Body.List[len(cont.Body.List)-1].(*ast.ReturnStmt); isRet && len(cont.Body.List) == 1 && uses == 1 && ret != nil {
			body := in.clone(cont.Body, map[types.Object]ast.Expr{v: x}).(*ast.BlockStmt)
			var out []ast.Stmt
			if len(as.Lhs) > 1 {
				rest := &ast.AssignStmt{Tok: as.Tok, TokPos: as.TokPos}
				for i := range as.Lhs {
					if i != idx {
						rest.Lhs = append(rest.Lhs, as.Lhs[i])
						rest.Rhs = append(rest.Rhs, as.Rhs[i])
					}
				}
				out = append(out, rest)
			}
			return append(out, body.List...)
		}
		body := in.clone(cont.Body, nil).(*ast.BlockStmt)
		return append([]ast.Stmt{as}, body.List...)
	}
	return generic()
}

// hoistNested finds the first call evaluated by stmt; when it is a call of a multi-statement
// candidate nested in a larger expression, the call is replaced by a fresh variable and the
// returned statement `v := helper(args)` is to be placed before stmt (evaluation order is kept:
// nothing else of the statement has been called yet).
func (in *inliner) hoistNested(stmt ast.Stmt, self *types.Func) ast.Stmt {
	var slots []*ast.Expr
	top := map[ast.Expr]bool{} // positions inlineStmt handles itself
	switch s := stmt.(type) {
	case *ast.ExprStmt:
		slots = append(slots, &s.X)
		top[s.X] = true
	case *ast.AssignStmt:
		for i := range s.Rhs {
			slots = append(slots, &s.Rhs[i])
		}
		if len(s.Rhs) == 1 {
			top[s.Rhs[0]] = true
		}
	case *ast.ReturnStmt:
		for i := range s.Results {
			slots = append(slots, &s.Results[i])
		}
		if len(s.Results) == 1 {
			top[s.Results[0]] = true
		}
	case *ast.IfStmt:
		if s.Init == nil {
			slots = append(slots, &s.Cond)
		}
	case *ast.SwitchStmt:
		// `switch kindOf(x) {…}`: the tag is evaluated once, before anything else
		if s.Init == nil && s.Tag != nil {
			slots = append(slots, &s.Tag)
		}
	case *ast.DeferStmt:
		for i := range s.Call.Args {
			slots = append(slots, &s.Call.Args[i])
		}
	case *ast.GoStmt:
		for i := range s.Call.Args {
			slots = append(slots, &s.Call.Args[i])
		}
	default:
		return nil
	}
	// first real call in evaluation order, with the slot that holds it
	var first *ast.CallExpr
	var firstSlot *ast.Expr
	var visit func(slot *ast.Expr) bool // true: stop
	visit = func(slot *ast.Expr) bool {
		switch x := (*slot).(type) {
		case *ast.ParenExpr:
			return visit(&x.X)
		case *ast.FuncLit:
			return false
		case *ast.SelectorExpr:
			return visit(&x.X)
		case *ast.StarExpr:
			return visit(&x.X)
		case *ast.UnaryExpr:
			return visit(&x.X)
		case *ast.IndexExpr:
			return visit(&x.X) || visit(&x.Index)
		case *ast.SliceExpr:
			if visit(&x.X) {
				return true
			}
			for _, e := range []*ast.Expr{&x.Low, &x.High, &x.Max} {
				if *e != nil && visit(e) {
					return true
				}
			}
			return false
		case *ast.TypeAssertExpr:
			return visit(&x.X)
		case *ast.KeyValueExpr:
			return visit(&x.Value)
		case *ast.CompositeLit:
			for i := range x.Elts {
				if visit(&x.Elts[i]) {
					return true
				}
			}
			return false
		case *ast.BinaryExpr:
			if visit(&x.X) {
				return true
			}
			if x.Op == token.LAND || x.Op == token.LOR {
				// the right operand is evaluated conditionally: any call in it ends the search
				found := false
				ast.Inspect(x.Y, func(n ast.Node) bool {
					if _, ok := n.(*ast.CallExpr); ok {
						found = true
					}
					return !found
				})
				return found
			}
			return visit(&x.Y)
		case *ast.CallExpr:
			if visit(&x.Fun) {
				return true
			}
			for i := range x.Args {
				if visit(&x.Args[i]) {
					return true
				}
			}
			if tv, ok := in.info.Types[x.Fun]; ok && tv.IsType() {
				return false
			}
			if id, ok := x.Fun.(*ast.Ident); ok {
				if _, isB := in.info.Uses[id].(*types.Builtin); isB {
					return false
				}
			}
			// calls without effects commute with the helper: keep looking behind them
			if _, hd, _ := in.calleeOf(x); hd == nil && in.norm != nil {
				if f, ok := astx.Callee(in.info, x).(*types.Func); ok && in.norm.pureFunc(f) {
					return false
				}
			}
			first, firstSlot = x, slot
			return true
		}
		return false
	}
	for _, slot := range slots {
		if visit(slot) {
			break
		}
	}
	if first == nil || top[ast.Expr(first)] {
		return nil
	}
	fn, hd, recv := in.calleeOf(first)
	if hd == nil || fn == self {
		return nil
	}
	if singleExpr(hd) != nil {
		if _, prologue, ok := in.bindParams(hd, first, recv); ok && len(prologue) == 0 {
			return nil // the expression-level pass handles it
		}
	}
	sig := fn.Type().(*types.Signature)
	if sig.Results().Len() != 1 || in.hasDefer[fn] {
		return nil
	}
	in.counter++
	name := fmt.Sprintf("_h%d", in.counter)
	v := types.NewVar(first.Pos(), in.pkg.Types, name, sig.Results().At(0).Type())
	def := &ast.Ident{Name: name, NamePos: first.Pos()}
	use := &ast.Ident{Name: name, NamePos: first.Pos()}
	in.info.Defs[def] = v
	in.info.Uses[use] = v
	in.info.Types[use] = types.TypeAndValue{Type: v.Type()}
	*firstSlot = use
	return &ast.AssignStmt{Lhs: []ast.Expr{def}, Tok: token.DEFINE, TokPos: first.Pos(), Rhs: []ast.Expr{first}}
}

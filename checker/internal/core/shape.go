package core

import (
	"go/ast"
	"go/token"
	"go/types"

	"golang.org/x/tools/go/ast/astutil"
)

// canonShape brings statement lists into one spelling, on every tree alike:
//
//   - `var x = E` (one name, no type) becomes `x := E`;
//   - a bare block inside a statement list is spliced into the list, unless a name it defines at its
//     top level is seen elsewhere in the function;
//   - `x := E; if c(x) {…}` with x (every name the statement defines) not used after the if
//     statement becomes `if x := E; c(x) {…}`.
//
// None of the three changes what runs or in which order; the type information keeps binding every
// identifier to the same object.
func (n *normaliser) canonShape(fd *ast.FuncDecl) {
	for round := 0; round < 4; round++ {
		changed := false
		ast.Inspect(fd.Body, func(node ast.Node) bool {
			switch x := node.(type) {
			case *ast.BlockStmt:
				x.List, changed = n.canonList(fd, x.List, changed)
			case *ast.CaseClause:
				x.Body, changed = n.canonList(fd, x.Body, changed)
			case *ast.CommClause:
				x.Body, changed = n.canonList(fd, x.Body, changed)
			}
			return true
		})
		if !changed {
			break
		}
		n.p.mutated = true
	}
}

func (n *normaliser) canonList(fd *ast.FuncDecl, list []ast.Stmt, changed bool) ([]ast.Stmt, bool) {
	// var x = E  ->  x := E
	for i, s := range list {
		ds, ok := s.(*ast.DeclStmt)
		if !ok {
			continue
		}
		gd, ok := ds.Decl.(*ast.GenDecl)
		if !ok || gd.Tok != token.VAR || len(gd.Specs) != 1 {
			continue
		}
		vs, ok := gd.Specs[0].(*ast.ValueSpec)
		if !ok || vs.Type != nil || len(vs.Names) != 1 || len(vs.Values) != 1 || vs.Names[0].Name == "_" {
			continue
		}
		if tv, ok := n.info.Types[vs.Values[0]]; !ok || tv.IsNil() {
			continue
		}
		list[i] = &ast.AssignStmt{Lhs: []ast.Expr{vs.Names[0]}, Tok: token.DEFINE, TokPos: vs.Names[0].End(), Rhs: vs.Values}
		changed = true
	}
	// x = x op E  ->  x op= E
	for _, s := range list {
		as, ok := s.(*ast.AssignStmt)
		if !ok || as.Tok != token.ASSIGN || len(as.Lhs) != 1 || len(as.Rhs) != 1 || !plainCallee(as.Lhs[0]) {
			continue
		}
		be, ok := as.Rhs[0].(*ast.BinaryExpr)
		if !ok || types.ExprString(be.X) != types.ExprString(as.Lhs[0]) {
			continue
		}
		tok, ok := map[token.Token]token.Token{token.ADD: token.ADD_ASSIGN, token.SUB: token.SUB_ASSIGN, token.MUL: token.MUL_ASSIGN, token.OR: token.OR_ASSIGN, token.AND: token.AND_ASSIGN}[be.Op]
		if !ok {
			continue
		}
		rhs := be.Y
		if p, isParen := rhs.(*ast.ParenExpr); isParen {
			rhs = p.X
		}
		as.Tok, as.Rhs = tok, []ast.Expr{rhs}
		changed = true
	}
	// for i := range xs { v := xs[i]; … }  ->  for i, v := range xs { … }  (for _, v when i has no other use)
	for _, s := range list {
		rs, ok := s.(*ast.RangeStmt)
		if !ok || rs.Tok != token.DEFINE || rs.Value != nil || rs.Key == nil || len(rs.Body.List) == 0 || !plainCallee(rs.X) {
			continue
		}
		key, ok := rs.Key.(*ast.Ident)
		if !ok || key.Name == "_" {
			continue
		}
		if _, isSlice := n.info.TypeOf(rs.X).Underlying().(*types.Slice); !isSlice {
			continue
		}
		def, ok := rs.Body.List[0].(*ast.AssignStmt)
		if !ok || def.Tok != token.DEFINE || len(def.Lhs) != 1 || len(def.Rhs) != 1 {
			continue
		}
		v, ok := def.Lhs[0].(*ast.Ident)
		if !ok || v.Name == "_" {
			continue
		}
		ix, ok := def.Rhs[0].(*ast.IndexExpr)
		if !ok || types.ExprString(ix.X) != types.ExprString(rs.X) {
			continue
		}
		iid, ok := ix.Index.(*ast.Ident)
		if !ok || n.info.Uses[iid] == nil || n.info.Uses[iid] != n.info.Defs[key] {
			continue
		}
		// the slice is not written in the body (the range statement reads it once, the index expression each time)
		root := rootVar(n.info, rs.X)
		written := false
		keyUses := 0
		ast.Inspect(rs.Body, func(x ast.Node) bool {
			switch y := x.(type) {
			case *ast.AssignStmt:
				for _, l := range y.Lhs {
					if root != nil && rootVar(n.info, l) == root && y != def {
						written = true
					}
				}
			case *ast.IncDecStmt:
				if root != nil && rootVar(n.info, y.X) == root {
					written = true
				}
			case *ast.UnaryExpr:
				if y.Op == token.AND && root != nil && rootVar(n.info, y.X) == root {
					written = true
				}
			case *ast.Ident:
				if n.info.Uses[y] == n.info.Defs[key] {
					keyUses++
				}
			}
			return true
		})
		if written {
			continue
		}
		rs.Value = v
		if keyUses == 1 {
			blank := &ast.Ident{Name: "_", NamePos: key.Pos()}
			rs.Key = blank
		}
		rs.Body.List = rs.Body.List[1:]
		changed = true
	}
	// if c {…; return} else {B}  ->  if c {…; return}; {B}   (the block is spliced below when it can be)
	for i := 0; i < len(list); i++ {
		ifs, ok := list[i].(*ast.IfStmt)
		if !ok || ifs.Else == nil || !endsInJump(ifs.Body) {
			continue
		}
		// names the init statement defines are visible in the else branch only while it is one
		if ifs.Init != nil {
			objs := map[types.Object]bool{}
			ast.Inspect(ifs.Init, func(x ast.Node) bool {
				if id, ok := x.(*ast.Ident); ok && n.info.Defs[id] != nil {
					objs[n.info.Defs[id]] = true
				}
				return true
			})
			if n.mentionsObj(ifs.Else, objs) {
				continue
			}
		}
		els := ifs.Else
		ifs.Else = nil
		rest := append([]ast.Stmt(nil), list[i+1:]...)
		list = append(append(list[:i+1:i+1], els), rest...)
		changed = true
	}
	// x := &T{…}; x.F = E; x.G = E2  ->  x := &T{…, F: E, G: E2}   (fields not yet in the literal, E not mentioning x)
	for i := 0; i+1 < len(list); i++ {
		as, ok := list[i].(*ast.AssignStmt)
		if !ok || as.Tok != token.DEFINE || len(as.Lhs) != 1 || len(as.Rhs) != 1 {
			continue
		}
		xid, ok := as.Lhs[0].(*ast.Ident)
		if !ok || n.info.Defs[xid] == nil {
			continue
		}
		var lit *ast.CompositeLit
		switch r := as.Rhs[0].(type) {
		case *ast.CompositeLit:
			lit = r
		case *ast.UnaryExpr:
			if r.Op == token.AND {
				lit, _ = r.X.(*ast.CompositeLit)
			}
		}
		if lit == nil {
			continue
		}
		if t := n.info.TypeOf(lit); t == nil {
			continue
		} else if _, isStruct := t.Underlying().(*types.Struct); !isStruct {
			continue
		}
		have := map[string]bool{}
		keyed := true
		for _, el := range lit.Elts {
			kv, ok := el.(*ast.KeyValueExpr)
			if !ok {
				keyed = false
				break
			}
			if k, ok := kv.Key.(*ast.Ident); ok {
				have[k.Name] = true
			}
		}
		if !keyed {
			continue
		}
		xobj := n.info.Defs[xid]
		for i+1 < len(list) {
			set, ok := list[i+1].(*ast.AssignStmt)
			if !ok || set.Tok != token.ASSIGN || len(set.Lhs) != 1 || len(set.Rhs) != 1 {
				break
			}
			sel, ok := set.Lhs[0].(*ast.SelectorExpr)
			if !ok {
				break
			}
			root, ok := sel.X.(*ast.Ident)
			if !ok || n.info.Uses[root] != xobj || have[sel.Sel.Name] {
				break
			}
			if fld, isField := n.info.Uses[sel.Sel].(*types.Var); !isField || !fld.IsField() {
				break
			}
			if s := n.info.Selections[sel]; s == nil || len(s.Index()) != 1 {
				break // a promoted field cannot be a key of this literal
			}
			if n.mentionsObj(set.Rhs[0], map[types.Object]bool{xobj: true}) {
				break
			}
			key := &ast.Ident{Name: sel.Sel.Name, NamePos: sel.Sel.Pos()}
			n.info.Uses[key] = n.info.Uses[sel.Sel]
			lit.Elts = append(lit.Elts, &ast.KeyValueExpr{Key: key, Colon: set.TokPos, Value: set.Rhs[0]})
			have[sel.Sel.Name] = true
			list = append(list[:i+1:i+1], list[i+2:]...)
			changed = true
		}
	}
	// bare blocks
	for i := 0; i < len(list); i++ {
		blk, ok := list[i].(*ast.BlockStmt)
		if !ok || n.definesSeenElsewhere(fd, blk) {
			continue
		}
		rest := append([]ast.Stmt(nil), list[i+1:]...)
		list = append(append(list[:i:i], blk.List...), rest...)
		changed = true
		i--
	}
	// x := E; if c(x) {…}
	for i := 0; i+1 < len(list); i++ {
		as, ok := list[i].(*ast.AssignStmt)
		if !ok || as.Tok != token.DEFINE {
			continue
		}
		next, ok := list[i+1].(*ast.IfStmt)
		if !ok || next.Init != nil {
			continue
		}
		objs := map[types.Object]bool{}
		allNew := true
		for _, l := range as.Lhs {
			id, isID := l.(*ast.Ident)
			if !isID {
				allNew = false
				break
			}
			if id.Name == "_" {
				continue
			}
			o := n.info.Defs[id]
			if o == nil {
				allNew = false
				break
			}
			objs[o] = true
		}
		if !allNew || len(objs) == 0 || !n.mentionsObj(next.Cond, objs) {
			continue
		}
		usedLater := false
		for _, s := range list[i+2:] {
			if n.mentionsObj(s, objs) {
				usedLater = true
				break
			}
		}
		if usedLater {
			continue
		}
		next.Init = as
		list = append(list[:i:i], list[i+1:]...)
		changed = true
	}
	return list, changed
}

func (n *normaliser) mentionsObj(node ast.Node, objs map[types.Object]bool) bool {
	m := false
	ast.Inspect(node, func(x ast.Node) bool {
		if id, ok := x.(*ast.Ident); ok && objs[n.info.Uses[id]] {
			m = true
		}
		return !m
	})
	return m
}

// definesSeenElsewhere: the block declares, at its top level, a name that elsewhere in fd (outside the
// block) means something else - splicing would then change what a reader, and a name-keyed rule, sees -
// or a label. The same name for the same variable (the block is an inlined body that defines a
// variable of its caller) is no obstacle.
func (n *normaliser) definesSeenElsewhere(fd *ast.FuncDecl, blk *ast.BlockStmt) bool {
	names := map[string]types.Object{}
	for _, s := range blk.List {
		switch x := s.(type) {
		case *ast.AssignStmt:
			if x.Tok == token.DEFINE {
				for _, l := range x.Lhs {
					if id, ok := l.(*ast.Ident); ok && n.info.Defs[id] != nil {
						names[id.Name] = n.info.Defs[id]
					}
				}
			}
		case *ast.DeclStmt:
			gd, _ := x.Decl.(*ast.GenDecl)
			if gd == nil {
				return true
			}
			for _, spec := range gd.Specs {
				switch sp := spec.(type) {
				case *ast.ValueSpec:
					for _, id := range sp.Names {
						names[id.Name] = n.info.Defs[id]
					}
				case *ast.TypeSpec:
					names[sp.Name.Name] = n.info.Defs[sp.Name]
				}
			}
		case *ast.LabeledStmt:
			return true
		}
	}
	if len(names) == 0 {
		return false
	}
	seen := false
	ast.Inspect(fd, func(x ast.Node) bool {
		if x == ast.Node(blk) {
			return false
		}
		id, ok := x.(*ast.Ident)
		if !ok {
			return !seen
		}
		mine, defined := names[id.Name]
		if !defined {
			return true
		}
		obj := n.info.Uses[id]
		if obj == nil {
			obj = n.info.Defs[id]
		}
		if obj == nil {
			return true // a struct literal key, a label
		}
		if v, isVar := obj.(*types.Var); isVar && v.IsField() {
			return true
		}
		if mine != nil && obj == mine {
			return true
		}
		seen = true
		return false
	})
	return seen
}

func endsInJump(b *ast.BlockStmt) bool {
	if len(b.List) == 0 {
		return false
	}
	switch x := b.List[len(b.List)-1].(type) {
	case *ast.ReturnStmt:
		return true
	case *ast.BranchStmt:
		return x.Tok != token.FALLTHROUGH
	case *ast.ExprStmt:
		if call, ok := x.X.(*ast.CallExpr); ok {
			if id, ok := call.Fun.(*ast.Ident); ok && id.Name == "panic" {
				return true
			}
		}
	}
	return false
}

// coalesceCopies removes `x := y` / `x = y` between two locals of the same type when y is defined
// in the same statement list, is never looked at again, and (for `=`) x is not mentioned between
// y's definition and the copy: y then is x from its definition on. This is what inlining
// `x := helper()` leaves behind when the helper ends in `return y`. Neither variable may be captured
// by a function literal or have its address taken.
func (n *normaliser) coalesceCopies(fd *ast.FuncDecl) bool {
	changed := false
	for round := 0; round < 24; round++ {
		if !n.coalesceOne(fd) {
			break
		}
		changed = true
		n.p.mutated = true
	}
	return changed
}

func (n *normaliser) coalesceOne(fd *ast.FuncDecl) bool {
	// variables that escape the simple picture
	pinned := map[types.Object]bool{}
	var lits []*ast.FuncLit
	ast.Inspect(fd, func(x ast.Node) bool {
		switch y := x.(type) {
		case *ast.FuncLit:
			lits = append(lits, y)
		case *ast.UnaryExpr:
			if y.Op == token.AND {
				if o := rootVar(n.info, y.X); o != nil {
					pinned[o] = true
				}
			}
		}
		return true
	})
	for _, lit := range lits {
		ast.Inspect(lit, func(x ast.Node) bool {
			if id, ok := x.(*ast.Ident); ok {
				if o := n.info.Uses[id]; o != nil {
					pinned[o] = true
				}
			}
			return true
		})
	}
	done := false
	ast.Inspect(fd.Body, func(node ast.Node) bool {
		if done {
			return false
		}
		var list []ast.Stmt
		switch x := node.(type) {
		case *ast.BlockStmt:
			list = x.List
		case *ast.CaseClause:
			list = x.Body
		case *ast.CommClause:
			list = x.Body
		default:
			return true
		}
		for k, s := range list {
			as, ok := s.(*ast.AssignStmt)
			if !ok || (as.Tok != token.DEFINE && as.Tok != token.ASSIGN) || len(as.Lhs) != len(as.Rhs) {
				continue
			}
			// a tuple copy `a, b := a1, b1` is one copy per pair as long as every right-hand side is a plain local
			plain := true
			for _, r := range as.Rhs {
				if _, isID := r.(*ast.Ident); !isID {
					plain = false
				}
			}
			if !plain {
				continue
			}
			for pi := range as.Lhs {
				lid, ok1 := as.Lhs[pi].(*ast.Ident)
				rid, ok2 := as.Rhs[pi].(*ast.Ident)
				if !ok1 || !ok2 || lid.Name == "_" {
					continue
				}
				// the other right-hand sides must not be this pair's target (a swap is not a copy)
				swap := false
				for oi, r := range as.Rhs {
					if oi != pi && r.(*ast.Ident).Name == lid.Name {
						swap = true
					}
				}
				if swap {
					continue
				}
				y, _ := n.info.Uses[rid].(*types.Var)
				var x *types.Var
				if as.Tok == token.DEFINE {
					x, _ = n.info.Defs[lid].(*types.Var)
				} else {
					x, _ = n.info.Uses[lid].(*types.Var)
				}
				if x == nil || y == nil || x == y || x.IsField() || y.IsField() || pinned[x] || pinned[y] || !types.Identical(x.Type(), y.Type()) {
					continue
				}
				if y.Pkg() == nil || y.Parent() == y.Pkg().Scope() || x.Parent() == x.Pkg().Scope() {
					continue
				}
				// y's definition: a := statement of this list, before the copy
				j := -1
				var defID *ast.Ident
				var defStmt *ast.AssignStmt
				for i := 0; i < k; i++ {
					d, ok := list[i].(*ast.AssignStmt)
					if !ok || d.Tok != token.DEFINE {
						continue
					}
					for _, l := range d.Lhs {
						if id, ok := l.(*ast.Ident); ok && n.info.Defs[id] == types.Object(y) {
							j, defID, defStmt = i, id, d
						}
					}
				}
				if j < 0 {
					continue
				}
				// y is not looked at after the copy
				later := false
				ast.Inspect(fd.Body, func(z ast.Node) bool {
					if id, ok := z.(*ast.Ident); ok && id.Pos() > as.End() && (n.info.Uses[id] == types.Object(y) || n.info.Defs[id] == types.Object(y)) {
						later = true
					}
					return !later
				})
				if later {
					continue
				}
				// `y := x; …; x = y`: y starts out as x, so only what lies between the two statements matters
				selfCopy := false
				if len(defStmt.Lhs) == 1 && len(defStmt.Rhs) == 1 {
					if rid0, ok := defStmt.Rhs[0].(*ast.Ident); ok && n.info.Uses[rid0] == types.Object(x) {
						selfCopy = true
					}
				}
				if as.Tok == token.ASSIGN {
					between := false
					from := j
					if selfCopy {
						from = j + 1
					}
					for _, st := range list[from:k] {
						if n.mentionsObj(st, map[types.Object]bool{x: true}) {
							between = true
						}
					}
					if between {
						continue
					}
				}
				// y becomes x
				ast.Inspect(fd.Body, func(z ast.Node) bool {
					id, ok := z.(*ast.Ident)
					if !ok {
						return true
					}
					if n.info.Uses[id] == types.Object(y) {
						n.info.Uses[id] = x
						id.Name = x.Name()
					}
					return true
				})
				defID.Name = x.Name()
				if as.Tok == token.DEFINE {
					n.info.Defs[defID] = x
				} else {
					delete(n.info.Defs, defID)
					n.info.Uses[defID] = x
					if len(defStmt.Lhs) == 1 {
						defStmt.Tok = token.ASSIGN
					}
				}
				if selfCopy && as.Tok == token.ASSIGN {
					// the definition has become `x = x`
					for di, st := range list {
						if st == ast.Stmt(defStmt) {
							list = append(list[:di:di], list[di+1:]...)
							k--
							break
						}
					}
				}
				// drop the copy
				if len(as.Lhs) > 1 {
					as.Lhs = append(as.Lhs[:pi:pi], as.Lhs[pi+1:]...)
					as.Rhs = append(as.Rhs[:pi:pi], as.Rhs[pi+1:]...)
					// what is left may define nothing new any more
					if as.Tok == token.DEFINE {
						anyNew := false
						for _, l := range as.Lhs {
							if id, ok := l.(*ast.Ident); ok && n.info.Defs[id] != nil {
								anyNew = true
							}
						}
						if !anyNew {
							as.Tok = token.ASSIGN
						}
					}
					switch x := node.(type) {
					case *ast.BlockStmt:
						x.List = list
					case *ast.CaseClause:
						x.Body = list
					case *ast.CommClause:
						x.Body = list
					}
					done = true
					return false
				}
				rest := append([]ast.Stmt(nil), list[k+1:]...)
				list = append(list[:k:k], rest...)
				switch x := node.(type) {
				case *ast.BlockStmt:
					x.List = list
				case *ast.CaseClause:
					x.Body = list
				case *ast.CommClause:
					x.Body = list
				}
				done = true
				return false
			}
		}
		return true
	})
	return done
}

// coalesceMultiCopies: a local x whose every assignment is a plain copy of one other local y
// (`x = y` on each path out of an inlined helper that returned its local from several places), with x
// never mentioned before the first copy and y never mentioned after the last one, is y: the copies are
// dropped and x's mentions become y's. Neither may be captured by a function literal or have its address
// taken.
func (n *normaliser) coalesceMultiCopies(fd *ast.FuncDecl) bool {
	// tree-order index of every node
	order := map[ast.Node]int{}
	i := 0
	ast.Inspect(fd.Body, func(x ast.Node) bool {
		if x != nil {
			order[x] = i
			i++
		}
		return true
	})
	pinned := map[types.Object]bool{}
	ast.Inspect(fd, func(x ast.Node) bool {
		switch y := x.(type) {
		case *ast.FuncLit:
			ast.Inspect(y, func(z ast.Node) bool {
				if id, ok := z.(*ast.Ident); ok {
					if o := n.info.Uses[id]; o != nil {
						pinned[o] = true
					}
				}
				return true
			})
		case *ast.UnaryExpr:
			if y.Op == token.AND {
				if o := rootVar(n.info, y.X); o != nil {
					pinned[o] = true
				}
			}
		}
		return true
	})
	type info struct {
		copies []*ast.AssignStmt
		src    *types.Var
		other  bool
	}
	byX := map[*types.Var]*info{}
	ast.Inspect(fd.Body, func(x ast.Node) bool {
		as, ok := x.(*ast.AssignStmt)
		if !ok {
			return true
		}
		for li, l := range as.Lhs {
			id, isID := l.(*ast.Ident)
			if !isID {
				continue
			}
			xv, _ := n.info.Uses[id].(*types.Var)
			if xv == nil {
				xv, _ = n.info.Defs[id].(*types.Var)
			}
			if xv == nil || xv.IsField() {
				continue
			}
			in := byX[xv]
			if in == nil {
				in = &info{}
				byX[xv] = in
			}
			var yv *types.Var
			if len(as.Lhs) == 1 && len(as.Rhs) == 1 && (as.Tok == token.ASSIGN || as.Tok == token.DEFINE) {
				if rid, isRID := as.Rhs[0].(*ast.Ident); isRID {
					yv, _ = n.info.Uses[rid].(*types.Var)
				}
			}
			_ = li
			if yv == nil || yv == xv || yv.IsField() || !types.Identical(xv.Type(), yv.Type()) || (in.src != nil && in.src != yv) {
				in.other = true
				continue
			}
			in.src = yv
			in.copies = append(in.copies, as)
		}
		return true
	})
	for xv, in := range byX {
		if in.other || len(in.copies) < 2 || in.src == nil || pinned[xv] || pinned[in.src] || n.isParamOrResult(fd, xv) {
			continue
		}
		yv := in.src
		if yv.Pkg() == nil || yv.Parent() == yv.Pkg().Scope() {
			continue
		}
		first, last := 1<<30, -1
		isCopy := map[ast.Node]bool{}
		for _, cp := range in.copies {
			isCopy[cp] = true
			if order[cp] < first {
				first = order[cp]
			}
			if order[cp] > last {
				last = order[cp]
			}
		}
		ok := true
		var stack []ast.Node
		ast.Inspect(fd.Body, func(x ast.Node) bool {
			if x == nil {
				stack = stack[:len(stack)-1]
				return false
			}
			stack = append(stack, x)
			id, isID := x.(*ast.Ident)
			if !isID {
				return true
			}
			inCopy := false
			for _, a := range stack {
				if isCopy[a] {
					inCopy = true
				}
			}
			if inCopy {
				return true
			}
			o := n.info.Uses[id]
			if o == nil {
				o = n.info.Defs[id]
			}
			if o == types.Object(xv) && order[id] < first {
				ok = false
			}
			if o == types.Object(yv) && order[id] > last {
				ok = false
			}
			return true
		})
		if !ok {
			continue
		}
		// x is y
		ast.Inspect(fd.Body, func(x ast.Node) bool {
			if id, isID := x.(*ast.Ident); isID {
				if n.info.Uses[id] == types.Object(xv) {
					n.info.Uses[id] = yv
					id.Name = yv.Name()
				}
				if n.info.Defs[id] == types.Object(xv) {
					delete(n.info.Defs, id)
					n.info.Uses[id] = yv
					id.Name = yv.Name()
				}
			}
			return true
		})
		astutil.Apply(fd.Body, nil, func(c *astutil.Cursor) bool {
			if isCopy[c.Node()] {
				if c.Index() >= 0 {
					c.Delete()
				} else {
					c.Replace(&ast.EmptyStmt{Implicit: true})
				}
			}
			return true
		})
		n.p.mutated = true
		return true
	}
	return false
}

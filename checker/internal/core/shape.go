package core

import (
	"go/ast"
	"go/token"
	"go/types"
)

// canonShape brings statement lists into one spelling, on every tree alike:
//
//   - `var x = E` (one name, no type) becomes `x := E`;
//   - a bare block inside a statement list is spliced into the list, unless a name it defines at its
//     top level is seen elsewhere in the function;
//   - `x := E; if c(x) {…}` with x (every name the statement defines) not used after the if
//     statement becomes `if x := E; c(x) {…}`.
//
// None of the three changes what runs or in which order; the type information keeps binding every
// identifier to the same object.
func (n *normaliser) canonShape(fd *ast.FuncDecl) {
	for round := 0; round < 4; round++ {
		changed := false
		ast.Inspect(fd.Body, func(node ast.Node) bool {
			switch x := node.(type) {
			case *ast.BlockStmt:
				x.List, changed = n.canonList(fd, x.List, changed)
			case *ast.CaseClause:
				x.Body, changed = n.canonList(fd, x.Body, changed)
			case *ast.CommClause:
				x.Body, changed = n.canonList(fd, x.Body, changed)
			}
			return true
		})
		if !changed {
			break
		}
		n.p.mutated = true
	}
}

func (n *normaliser) canonList(fd *ast.FuncDecl, list []ast.Stmt, changed bool) ([]ast.Stmt, bool) {
	// var x = E  ->  x := E
	for i, s := range list {
		ds, ok := s.(*ast.DeclStmt)
		if !ok {
			continue
		}
		gd, ok := ds.Decl.(*ast.GenDecl)
		if !ok || gd.Tok != token.VAR || len(gd.Specs) != 1 {
			continue
		}
		vs, ok := gd.Specs[0].(*ast.ValueSpec)
		if !ok || vs.Type != nil || len(vs.Names) != 1 || len(vs.Values) != 1 || vs.Names[0].Name == "_" {
			continue
		}
		if tv, ok := n.info.Types[vs.Values[0]]; !ok || tv.IsNil() {
			continue
		}
		list[i] = &ast.AssignStmt{Lhs: []ast.Expr{vs.Names[0]}, Tok: token.DEFINE, TokPos: vs.Names[0].End(), Rhs: vs.Values}
		changed = true
	}
	// x = x op E  ->  x op= E
	for _, s := range list {
		as, ok := s.(*ast.AssignStmt)
		if !ok || as.Tok != token.ASSIGN || len(as.Lhs) != 1 || len(as.Rhs) != 1 || !plainCallee(as.Lhs[0]) {
			continue
		}
		be, ok := as.Rhs[0].(*ast.BinaryExpr)
		if !ok || types.ExprString(be.X) != types.ExprString(as.Lhs[0]) {
			continue
		}
		tok, ok := map[token.Token]token.Token{token.ADD: token.ADD_ASSIGN, token.SUB: token.SUB_ASSIGN, token.MUL: token.MUL_ASSIGN, token.OR: token.OR_ASSIGN, token.AND: token.AND_ASSIGN}[be.Op]
		if !ok {
			continue
		}
		rhs := be.Y
		if p, isParen := rhs.(*ast.ParenExpr); isParen {
			rhs = p.X
		}
		as.Tok, as.Rhs = tok, []ast.Expr{rhs}
		changed = true
	}
	// for i := range xs { v := xs[i]; … }  ->  for i, v := range xs { … }  (for _, v when i has no other use)
	for _, s := range list {
		rs, ok := s.(*ast.RangeStmt)
		if !ok || rs.Tok != token.DEFINE || rs.Value != nil || rs.Key == nil || len(rs.Body.List) == 0 || !plainCallee(rs.X) {
			continue
		}
		key, ok := rs.Key.(*ast.Ident)
		if !ok || key.Name == "_" {
			continue
		}
		if _, isSlice := n.info.TypeOf(rs.X).Underlying().(*types.Slice); !isSlice {
			continue
		}
		def, ok := rs.Body.List[0].(*ast.AssignStmt)
		if !ok || def.Tok != token.DEFINE || len(def.Lhs) != 1 || len(def.Rhs) != 1 {
			continue
		}
		v, ok := def.Lhs[0].(*ast.Ident)
		if !ok || v.Name == "_" {
			continue
		}
		ix, ok := def.Rhs[0].(*ast.IndexExpr)
		if !ok || types.ExprString(ix.X) != types.ExprString(rs.X) {
			continue
		}
		iid, ok := ix.Index.(*ast.Ident)
		if !ok || n.info.Uses[iid] == nil || n.info.Uses[iid] != n.info.Defs[key] {
			continue
		}
		// the slice is not written in the body (the range statement reads it once, the index expression each time)
		root := rootVar(n.info, rs.X)
		written := false
		keyUses := 0
		ast.Inspect(rs.Body, func(x ast.Node) bool {
			switch y := x.(type) {
			case *ast.AssignStmt:
				for _, l := range y.Lhs {
					if root != nil && rootVar(n.info, l) == root && y != def {
						written = true
					}
				}
			case *ast.IncDecStmt:
				if root != nil && rootVar(n.info, y.X) == root {
					written = true
				}
			case *ast.UnaryExpr:
				if y.Op == token.AND && root != nil && rootVar(n.info, y.X) == root {
					written = true
				}
			case *ast.Ident:
				if n.info.Uses[y] == n.info.Defs[key] {
					keyUses++
				}
			}
			return true
		})
		if written {
			continue
		}
		rs.Value = v
		if keyUses == 1 {
			blank := &ast.Ident{Name: "_", NamePos: key.Pos()}
			rs.Key = blank
		}
		rs.Body.List = rs.Body.List[1:]
		changed = true
	}
	// if c {…; return} else {B}  ->  if c {…; return}; {B}   (the block is spliced below when it can be)
	for i := 0; i < len(list); i++ {
		ifs, ok := list[i].(*ast.IfStmt)
		if !ok || ifs.Else == nil || !endsInJump(ifs.Body) {
			continue
		}
		// names the init statement defines are visible in the else branch only while it is one
		if ifs.Init != nil {
			objs := map[types.Object]bool{}
			ast.Inspect(ifs.Init, func(x ast.Node) bool {
				if id, ok := x.(*ast.Ident); ok && n.info.Defs[id] != nil {
					objs[n.info.Defs[id]] = true
				}
				return true
			})
			if n.mentionsObj(ifs.Else, objs) {
				continue
			}
		}
		els := ifs.Else
		ifs.Else = nil
		rest := append([]ast.Stmt(nil), list[i+1:]...)
		list = append(append(list[:i+1:i+1], els), rest...)
		changed = true
	}
	// bare blocks
	for i := 0; i < len(list); i++ {
		blk, ok := list[i].(*ast.BlockStmt)
		if !ok || n.definesSeenElsewhere(fd, blk) {
			continue
		}
		rest := append([]ast.Stmt(nil), list[i+1:]...)
		list = append(append(list[:i:i], blk.List...), rest...)
		changed = true
		i--
	}
	// x := E; if c(x) {…}
	for i := 0; i+1 < len(list); i++ {
		as, ok := list[i].(*ast.AssignStmt)
		if !ok || as.Tok != token.DEFINE {
			continue
		}
		next, ok := list[i+1].(*ast.IfStmt)
		if !ok || next.Init != nil {
			continue
		}
		objs := map[types.Object]bool{}
		allNew := true
		for _, l := range as.Lhs {
			id, isID := l.(*ast.Ident)
			if !isID {
				allNew = false
				break
			}
			if id.Name == "_" {
				continue
			}
			o := n.info.Defs[id]
			if o == nil {
				allNew = false
				break
			}
			objs[o] = true
		}
		if !allNew || len(objs) == 0 || !n.mentionsObj(next.Cond, objs) {
			continue
		}
		usedLater := false
		for _, s := range list[i+2:] {
			if n.mentionsObj(s, objs) {
				usedLater = true
				break
			}
		}
		if usedLater {
			continue
		}
		next.Init = as
		list = append(list[:i:i], list[i+1:]...)
		changed = true
	}
	return list, changed
}

func (n *normaliser) mentionsObj(node ast.Node, objs map[types.Object]bool) bool {
	m := false
	ast.Inspect(node, func(x ast.Node) bool {
		if id, ok := x.(*ast.Ident); ok && objs[n.info.Uses[id]] {
			m = true
		}
		return !m
	})
	return m
}

// definesSeenElsewhere: the block declares, at its top level, a name that also occurs in fd outside
// the block (splicing would then change what a reader, and a name-keyed rule, sees), or a label.
func (n *normaliser) definesSeenElsewhere(fd *ast.FuncDecl, blk *ast.BlockStmt) bool {
	names := map[string]bool{}
	for _, s := range blk.List {
		switch x := s.(type) {
		case *ast.AssignStmt:
			if x.Tok == token.DEFINE {
				for _, l := range x.Lhs {
					if id, ok := l.(*ast.Ident); ok && n.info.Defs[id] != nil {
						names[id.Name] = true
					}
				}
			}
		case *ast.DeclStmt:
			gd, _ := x.Decl.(*ast.GenDecl)
			if gd == nil {
				return true
			}
			for _, spec := range gd.Specs {
				switch sp := spec.(type) {
				case *ast.ValueSpec:
					for _, id := range sp.Names {
						names[id.Name] = true
					}
				case *ast.TypeSpec:
					names[sp.Name.Name] = true
				}
			}
		case *ast.LabeledStmt:
			return true
		}
	}
	if len(names) == 0 {
		return false
	}
	seen := false
	ast.Inspect(fd, func(x ast.Node) bool {
		if x == ast.Node(blk) {
			return false
		}
		if id, ok := x.(*ast.Ident); ok && names[id.Name] {
			seen = true
		}
		return !seen
	})
	return seen
}

func endsInJump(b *ast.BlockStmt) bool {
	if len(b.List) == 0 {
		return false
	}
	switch x := b.List[len(b.List)-1].(type) {
	case *ast.ReturnStmt:
		return true
	case *ast.BranchStmt:
		return x.Tok != token.FALLTHROUGH
	case *ast.ExprStmt:
		if call, ok := x.X.(*ast.CallExpr); ok {
			if id, ok := call.Fun.(*ast.Ident); ok && id.Name == "panic" {
				return true
			}
		}
	}
	return false
}

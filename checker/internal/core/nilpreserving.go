package core

import (
	"go/ast"
	"go/token"
	"go/types"

	"verif/checker/internal/astx"
)

// nilPreserving decides whether a first-party function f(…, x, …) T with exactly one nilable
// parameter returns nil only when that parameter is nil ("wrapIf…" functions): on every exit the
// result is the nil literal under x == nil, or — with x known non-nil — x itself, a value that is
// never nil, or the result of another such function applied to x. The path walker uses this to
// know that `e = wrapIfContextError(e0)` is non-nil when e0 is.
type nilPreservation struct {
	p    *Program
	memo map[*types.Func]int // 1 yes, 2 no, 3 in progress
}

func (np *nilPreservation) is(f *types.Func) bool {
	f = f.Origin()
	switch np.memo[f] {
	case 1:
		return true
	case 2, 3:
		return false
	}
	np.memo[f] = 3
	res := np.compute(f)
	if res {
		np.memo[f] = 1
	} else {
		np.memo[f] = 2
	}
	return res
}

func nilable(t types.Type) bool {
	switch t.Underlying().(type) {
	case *types.Pointer, *types.Interface, *types.Map, *types.Slice, *types.Signature, *types.Chan:
		return true
	}
	return false
}

func (np *nilPreservation) compute(f *types.Func) bool {
	fd := np.p.Decl(f)
	if fd == nil || fd.Body == nil {
		return false
	}
	pkg := np.p.PkgOf(fd)
	if pkg == nil {
		return false
	}
	info := pkg.TypesInfo
	sig := f.Type().(*types.Signature)
	if sig.Results().Len() != 1 || !nilable(sig.Results().At(0).Type()) {
		return false
	}
	var param types.Object
	for i := 0; i < sig.Params().Len(); i++ {
		if nilable(sig.Params().At(i).Type()) && types.Identical(sig.Params().At(i).Type(), sig.Results().At(0).Type()) {
			if param != nil {
				return false
			}
			param = sig.Params().At(i)
		}
	}
	if param == nil {
		return false
	}
	ok, exits := true, 0
	astx.ForEachExit(info, fd.Body, func(s *astx.State, kind astx.ExitKind, ret *ast.ReturnStmt) {
		if ret == nil || len(ret.Results) != 1 {
			if kind == astx.ExitNoReturn {
				return
			}
			ok = false
			return
		}
		exits++
		isNilKnown, isNonNilKnown := false, false
		for _, fct := range s.Facts {
			l, op, r, isCmp := astx.CompareOp(fct.Expr)
			if isCmp && astx.IsNil(info, r) && astx.ObjOf(info, l) == param {
				if (op == token.EQL) == fct.Pol {
					isNilKnown = true
				} else {
					isNonNilKnown = true
				}
			}
		}
		r := astx.Unparen(ret.Results[0])
		if astx.IsNil(info, r) {
			if !isNilKnown {
				ok = false
			}
			return
		}
		if !isNonNilKnown && !isNilKnown {
			ok = false
			return
		}
		if isNilKnown {
			return // returning anything for a nil argument does not matter here
		}
		if !np.nonNilGiven(info, s, r, param, 0) {
			ok = false
		}
	})
	return ok && exits > 0
}

// nonNilGiven: with param known non-nil on the path, is e non-nil?
func (np *nilPreservation) nonNilGiven(info *types.Info, s *astx.State, e ast.Expr, param types.Object, depth int) bool {
	if depth > 4 {
		return false
	}
	e = astx.Unparen(e)
	if astx.NeverNil(info, e) {
		return true
	}
	if obj := astx.ObjOf(info, e); obj != nil {
		if obj == param {
			return true
		}
		if rhs := s.LastAssigned(info, obj); rhs != nil {
			return np.nonNilGiven(info, s, rhs, param, depth+1)
		}
		return false
	}
	if call, ok := e.(*ast.CallExpr); ok {
		if f := astx.CalleeFunc(info, call); f != nil && np.p.Decl(f) != nil && np.is(f) {
			for _, a := range call.Args {
				if np.nonNilGiven(info, s, a, param, depth+1) && nilable(info.TypeOf(a)) {
					return true
				}
			}
		}
	}
	return false
}

// installNilPreserving makes the summary available to the path walker.
func (p *Program) installNilPreserving() {
	np := &nilPreservation{p: p, memo: map[*types.Func]int{}}
	astx.NilPreserving = func(f *types.Func) bool {
		if f == nil || f.Pkg() == nil || p.ByPath[f.Pkg().Path()] == nil {
			return false
		}
		return np.is(f)
	}
}

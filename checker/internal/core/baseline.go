package core

import (
	"bufio"
	"fmt"
	"go/ast"
	"go/token"
	"go/types"
	"os"
	"sort"
	"strconv"
	"strings"

	"golang.org/x/tools/go/packages"
)

// Baseline inventory.
//
// The rules name their anchors: functions, struct fields, types and constants of the pinned tree.
// checker/baseline_decls.txt is the inventory of those declarations (kind, qualified name, type)
// plus, per function, the right-hand sides of its local variable definitions. It is data about
// the pinned tree only; every run still analyses /repo's current source. The inventory lets the
// loader tell what is new in the current tree, so that behaviour-preserving refactorings are
// normalised away before the rules run:
//
//   - a declaration of the inventory that is missing, when exactly one new declaration of the same
//     kind, owner and type exists, is a rename: the source is re-type-checked with the identifier
//     renamed back (an overlay; nothing is written to /repo);
//   - a function outside the inventory is a helper that was extracted: it is inlined (inline.go);
//   - a local variable whose defining expression is not in the inventory of its function and is a
//     pure read is a hoisted expression: its uses are replaced by the expression (normalise.go).
//
// None of this can hide a behaviour change: the rules run on code that is semantically the code of
// the current tree (renaming, inlining and forward substitution of pure single-assignment locals
// preserve behaviour); a failed normalisation only means the rules see the un-normalised shape.
type Baseline struct {
	Decls  map[string]map[string]string // kind -> qualified name -> type string
	Locals map[string]map[string]bool   // qualified function -> set of defining expressions
	Tags   map[string]map[string]bool   // qualified function -> tags of its tagged switch statements
	Shapes map[string]map[string]int    // qualified function -> loose key of a defining expression -> how many locals have it
	Lits   map[string][]string          // qualified struct type -> fields set by every keyed literal of it
	// ExprFuncs: qualified function -> source of the declaration, for functions that are one `return E`
	ExprFuncs map[string]string
}

// Decl is one line of the inventory.
type Decl struct{ Kind, Name, Type string }

// HasFunc reports whether a function is part of the pinned tree.
func (b *Baseline) HasFunc(q string) bool { _, ok := b.Decls["func"][q]; return ok }

// LoadBaseline reads checker/baseline_decls.txt.
func LoadBaseline(path string) (*Baseline, error) {
	f, err := os.Open(path)
	if err != nil {
		return nil, err
	}
	defer f.Close()
	b := &Baseline{Decls: map[string]map[string]string{}, Locals: map[string]map[string]bool{}, Tags: map[string]map[string]bool{}, Shapes: map[string]map[string]int{}, Lits: map[string][]string{}, ExprFuncs: map[string]string{}}
	sc := bufio.NewScanner(f)
	sc.Buffer(make([]byte, 1<<20), 1<<24)
	for sc.Scan() {
		line := sc.Text()
		if line == "" || strings.HasPrefix(line, "#") {
			continue
		}
		parts := strings.SplitN(line, "\t", 3)
		if len(parts) != 3 {
			return nil, fmt.Errorf("%s: malformed line %q", path, line)
		}
		if parts[0] == "litfields" {
			if parts[2] != "" {
				b.Lits[parts[1]] = strings.Split(parts[2], ",")
			} else {
				b.Lits[parts[1]] = nil
			}
			continue
		}
		if parts[0] == "exprfunc" {
			src, err := strconv.Unquote(parts[2])
			if err != nil {
				return nil, fmt.Errorf("%s: malformed exprfunc line for %s", path, parts[1])
			}
			b.ExprFuncs[parts[1]] = src
			continue
		}
		if parts[0] == "localshape" {
			if b.Shapes[parts[1]] == nil {
				b.Shapes[parts[1]] = map[string]int{}
			}
			b.Shapes[parts[1]][parts[2]]++
			continue
		}
		if parts[0] == "switchtag" {
			if b.Tags[parts[1]] == nil {
				b.Tags[parts[1]] = map[string]bool{}
			}
			b.Tags[parts[1]][parts[2]] = true
			continue
		}
		if parts[0] == "local" {
			if b.Locals[parts[1]] == nil {
				b.Locals[parts[1]] = map[string]bool{}
			}
			b.Locals[parts[1]][parts[2]] = true
			continue
		}
		if b.Decls[parts[0]] == nil {
			b.Decls[parts[0]] = map[string]string{}
		}
		b.Decls[parts[0]][parts[1]] = parts[2]
	}
	if len(b.Decls["func"]) < 300 {
		return nil, fmt.Errorf("%s: only %d functions listed", path, len(b.Decls["func"]))
	}
	return b, sc.Err()
}

type declObj struct {
	Decl
	obj types.Object
}

func oneLine(s string) string {
	return strings.Join(strings.Fields(s), " ")
}

// declObjects lists the declarations of the current program with their objects.
func (p *Program) declObjects() []declObj {
	var out []declObj
	for _, pkg := range p.All {
		qual := types.RelativeTo(pkg.Types)
		ts := func(t types.Type) string { return oneLine(types.TypeString(t, qual)) }
		scope := pkg.Types.Scope()
		for _, name := range scope.Names() {
			obj := scope.Lookup(name)
			q := pkg.PkgPath + "." + name
			switch o := obj.(type) {
			case *types.Const:
				out = append(out, declObj{Decl{"const", q, ts(o.Type()) + " = " + o.Val().ExactString()}, o})
			case *types.Var:
				out = append(out, declObj{Decl{"var", q, ts(o.Type())}, o})
			case *types.TypeName:
				named, _ := o.Type().(*types.Named)
				if named == nil || o.IsAlias() {
					out = append(out, declObj{Decl{"type", q, "alias " + ts(o.Type())}, o})
					continue
				}
				var ms []string
				for i := 0; i < named.NumMethods(); i++ {
					ms = append(ms, named.Method(i).Name())
				}
				sort.Strings(ms)
				desc := ts(named.Underlying())
				if st, ok := named.Underlying().(*types.Struct); ok {
					// field names are inventoried separately (so that a field rename does not hide a type rename)
					var fts []string
					for i := 0; i < st.NumFields(); i++ {
						fts = append(fts, ts(st.Field(i).Type()))
						ft := st.Field(i).Type()
						out = append(out, declObj{Decl{"field", q + "." + st.Field(i).Name(), ts(ft) + " ^" + ts(ft.Underlying())}, st.Field(i)})
					}
					desc = "struct{" + strings.Join(fts, "; ") + "}"
				}
				out = append(out, declObj{Decl{"type", q, desc + " methods:" + strings.Join(ms, ",")}, o})
			}
		}
		for _, fd := range p.AllFuncDeclsRaw(pkg) {
			obj, _ := pkg.TypesInfo.Defs[fd.Name].(*types.Func)
			if obj == nil {
				continue
			}
			sig := obj.Type().(*types.Signature)
			anon := func(t *types.Tuple) *types.Tuple {
				var vs []*types.Var
				for i := 0; i < t.Len(); i++ {
					vs = append(vs, types.NewVar(token.NoPos, nil, "", t.At(i).Type()))
				}
				return types.NewTuple(vs...)
			}
			s := ts(types.NewSignatureType(nil, nil, nil, anon(sig.Params()), anon(sig.Results()), sig.Variadic()))
			out = append(out, declObj{Decl{"func", pkg.PkgPath + "." + FuncName(fd), s}, obj})
		}
	}
	// the declaration order (fields: position in the struct) breaks ties between same-typed renames
	for i := range out {
		out[i].Type += fmt.Sprintf(" @%d", i)
	}
	return out
}

// splitOrd separates the " @n" ordinal from an inventory type string.
func splitOrd(t string) (string, int) {
	i := strings.LastIndex(t, " @")
	if i < 0 {
		return t, 0
	}
	n := 0
	fmt.Sscanf(t[i+2:], "%d", &n)
	return t[:i], n
}

// DeclInventory renders the inventory of the current program (connectlint -write-baseline).
func (p *Program) DeclInventory() []string {
	var out []string
	for _, d := range p.declObjects() {
		out = append(out, d.Kind+"\t"+d.Name+"\t"+d.Type)
	}
	seen := map[string]bool{}
	for _, pkg := range p.All {
		for _, fd := range p.AllFuncDeclsRaw(pkg) {
			q := pkg.PkgPath + "." + FuncName(fd)
			if src, ok := exprHelperSource(p.Fset, fd); ok && !strings.HasSuffix(p.Fset.Position(fd.Pos()).Filename, "_test.go") {
				out = append(out, "exprfunc\t"+q+"\t"+strconv.Quote(src))
			}
			for _, def := range localDefs(fd.Body) {
				line := "local\t" + q + "\t" + exprKey(pkg.TypesInfo, def.rhs)
				if !seen[line] {
					seen[line] = true
					out = append(out, line)
				}
				// one line per local (duplicates count)
				out = append(out, "localshape\t"+q+"\t"+looseKey(pkg.TypesInfo, def.rhs))
			}
			ast.Inspect(fd.Body, func(n ast.Node) bool {
				if sw, ok := n.(*ast.SwitchStmt); ok && sw.Tag != nil {
					line := "switchtag\t" + q + "\t" + exprKey(pkg.TypesInfo, sw.Tag)
					if !seen[line] {
						seen[line] = true
						out = append(out, line)
					}
				}
				return true
			})
		}
	}
	// fields set by every keyed composite literal of a first-party struct
	for _, pkg := range p.All {
		common := map[string]map[string]bool{}
		for _, fd := range p.AllFuncDeclsRaw(pkg) {
			ast.Inspect(fd.Body, func(n ast.Node) bool {
				lit, ok := n.(*ast.CompositeLit)
				if !ok {
					return true
				}
				t := pkg.TypesInfo.TypeOf(lit)
				if t == nil {
					return true
				}
				if ptr, isPtr := t.(*types.Pointer); isPtr {
					t = ptr.Elem()
				}
				named, ok := t.(*types.Named)
				if !ok || named.Obj().Pkg() != pkg.Types {
					return true
				}
				if _, isStruct := named.Underlying().(*types.Struct); !isStruct {
					return true
				}
				keys := map[string]bool{}
				for _, el := range lit.Elts {
					if kv, ok := el.(*ast.KeyValueExpr); ok {
						if id, ok := kv.Key.(*ast.Ident); ok {
							keys[id.Name] = true
						}
					}
				}
				if len(keys) == 0 {
					return true
				}
				q := pkg.PkgPath + "." + named.Obj().Name()
				if common[q] == nil {
					common[q] = keys
				} else {
					for k := range common[q] {
						if !keys[k] {
							delete(common[q], k)
						}
					}
				}
				return true
			})
		}
		for q, set := range common {
			var fs []string
			for k := range set {
				fs = append(fs, k)
			}
			sort.Strings(fs)
			out = append(out, "litfields\t"+q+"\t"+strings.Join(fs, ","))
		}
	}
	sort.Strings(out)
	return out
}

// LitFields returns the inventory's "fields set by every literal" table (nil without an inventory).
func (p *Program) LitFields() map[string][]string {
	if p.opt.Baseline == nil {
		return nil
	}
	return p.opt.Baseline.Lits
}

type localDef struct {
	id   *ast.Ident
	rhs  ast.Expr
	stmt ast.Stmt
}

// localDefs lists `x := e` / `var x = e` definitions with one value per name.
func localDefs(body ast.Node) []localDef {
	var out []localDef
	ast.Inspect(body, func(n ast.Node) bool {
		switch x := n.(type) {
		case *ast.AssignStmt:
			if x.Tok == token.DEFINE && len(x.Lhs) == len(x.Rhs) {
				for i, l := range x.Lhs {
					if id, ok := l.(*ast.Ident); ok && id.Name != "_" {
						out = append(out, localDef{id, x.Rhs[i], x})
					}
				}
			}
		case *ast.DeclStmt:
			if gd, ok := x.Decl.(*ast.GenDecl); ok && gd.Tok == token.VAR {
				for _, spec := range gd.Specs {
					if vs, ok := spec.(*ast.ValueSpec); ok && len(vs.Names) == len(vs.Values) {
						for i, id := range vs.Names {
							if id.Name != "_" {
								out = append(out, localDef{id, vs.Values[i], x})
							}
						}
					}
				}
			}
		}
		return true
	})
	return out
}

// detectRenames matches declarations of the inventory that are missing from the current tree with
// new declarations of the same kind, owner and type. Only unique matches count.
func (p *Program) detectRenames(b *Baseline, kinds ...string) map[types.Object]string {
	out := map[types.Object]string{}
	taken := map[string]bool{}
	all := p.declObjects()
	for _, kind := range kinds {
		for _, loose := range []bool{false, true} {
			base := b.Decls[kind]
			present := map[string]bool{}
			var added []declObj
			for _, d := range all {
				if d.Kind != kind {
					continue
				}
				present[d.Name] = true
				if _, ok := base[d.Name]; !ok {
					added = append(added, d)
				}
			}
			owner := func(q string) string {
				// package path may contain dots: the owner is everything before the last name component
				// ("pkg.Type.field" -> "pkg.Type", "pkg.Func" -> "pkg")
				return q[:strings.LastIndex(q, ".")]
			}
			group := func(name, typ string) string {
				t, _ := splitOrd(typ)
				if i := strings.Index(t, " ^"); i >= 0 {
					if loose {
						t = t[i+2:] // underlying type: `f func(error) error` and `f errorTranslator` are the same slot
					} else {
						t = t[:i]
					}
				}
				return owner(name) + "|" + t
			}
			ord := func(typ string) int { _, n := splitOrd(typ); return n }
			missing := map[string][]string{} // group -> missing baseline names
			for name, typ := range base {
				if !present[name] && !taken[name] {
					g := group(name, typ)
					missing[g] = append(missing[g], name)
				}
			}
			addedBy := map[string][]declObj{}
			for _, d := range added {
				if _, done := out[d.obj]; done {
					continue
				}
				g := group(d.Name, d.Type)
				addedBy[g] = append(addedBy[g], d)
			}
			for g, ms := range missing {
				as := addedBy[g]
				if len(ms) != len(as) {
					continue
				}
				// several same-typed renames under one owner are paired in declaration order
				sort.Slice(ms, func(i, j int) bool { return ord(base[ms[i]]) < ord(base[ms[j]]) })
				sort.Slice(as, func(i, j int) bool { return ord(as[i].Type) < ord(as[j].Type) })
				for i, old := range ms {
					if _, done := out[as[i].obj]; !done && !taken[old] {
						out[as[i].obj] = old[strings.LastIndex(old, ".")+1:]
						taken[old] = true
					}
				}
			}
		}
	}
	return out
}

// renameOverlay returns the sources of the files that mention a renamed object, with every
// identifier that resolves to it replaced.
func (p *Program) renameOverlay(ren map[types.Object]string) map[string][]byte {
	type edit struct {
		off, n int
		text   string
	}
	edits := map[string][]edit{}
	for _, pkg := range p.All {
		add := func(id *ast.Ident, obj types.Object) {
			if f, ok := obj.(*types.Func); ok {
				obj = f.Origin()
			}
			if v, ok := obj.(*types.Var); ok {
				obj = v.Origin()
			}
			name, ok := ren[obj]
			if !ok || id.Name != obj.Name() {
				return
			}
			pos := p.Fset.Position(id.Pos())
			edits[pos.Filename] = append(edits[pos.Filename], edit{pos.Offset, len(id.Name), name})
		}
		for id, obj := range pkg.TypesInfo.Defs {
			if obj != nil {
				add(id, obj)
			}
		}
		for id, obj := range pkg.TypesInfo.Uses {
			add(id, obj)
		}
	}
	out := map[string][]byte{}
	for file, es := range edits {
		src, ok := p.overlay[file]
		if !ok {
			data, err := os.ReadFile(file)
			if err != nil {
				continue
			}
			src = data
		}
		sort.Slice(es, func(i, j int) bool { return es[i].off > es[j].off })
		buf := append([]byte(nil), src...)
		last := -1
		for _, e := range es {
			if e.off == last || e.off+e.n > len(buf) {
				continue
			}
			last = e.off
			buf = append(buf[:e.off], append([]byte(e.text), buf[e.off+e.n:]...)...)
		}
		out[file] = buf
	}
	for f, src := range p.overlay {
		if _, ok := out[f]; !ok {
			out[f] = src
		}
	}
	return out
}

var _ = packages.NeedName

// exprKey renders an expression with every constant subexpression replaced by its value, so that
// naming a literal (or renaming a constant) does not make a defining expression look new.
func exprKey(info *types.Info, e ast.Expr) string { return exprKeyMode(info, e, false) }

// looseKey additionally forgets the names of fields and the types of locals (shape only).
func looseKey(info *types.Info, e ast.Expr) string { return exprKeyMode(info, e, true) }

func exprKeyMode(info *types.Info, e ast.Expr, loose bool) string {
	var sb strings.Builder
	var walk func(e ast.Expr)
	list := func(es []ast.Expr) {
		for i, a := range es {
			if i > 0 {
				sb.WriteString(", ")
			}
			walk(a)
		}
	}
	walk = func(e ast.Expr) {
		if e == nil {
			return
		}
		if tv, ok := info.Types[e]; ok && tv.Value != nil {
			sb.WriteString(tv.Value.ExactString())
			return
		}
		switch x := e.(type) {
		case *ast.Ident:
			// local variables and parameters by type, not by name
			if v, ok := info.Uses[x].(*types.Var); ok && !v.IsField() && v.Pkg() != nil && v.Parent() != v.Pkg().Scope() {
				if loose {
					sb.WriteString("$")
				} else {
					sb.WriteString("$" + types.TypeString(v.Type(), types.RelativeTo(v.Pkg())))
				}
				return
			}
			sb.WriteString(x.Name)
		case *ast.ParenExpr:
			sb.WriteString("(")
			walk(x.X)
			sb.WriteString(")")
		case *ast.SelectorExpr:
			walk(x.X)
			if v, ok := info.Uses[x.Sel].(*types.Var); ok && v.IsField() && loose {
				sb.WriteString(".~")
			} else {
				sb.WriteString("." + x.Sel.Name)
			}
		case *ast.CallExpr:
			walk(x.Fun)
			sb.WriteString("(")
			list(x.Args)
			if x.Ellipsis.IsValid() {
				sb.WriteString("...")
			}
			sb.WriteString(")")
		case *ast.IndexExpr:
			walk(x.X)
			sb.WriteString("[")
			walk(x.Index)
			sb.WriteString("]")
		case *ast.SliceExpr:
			walk(x.X)
			sb.WriteString("[")
			walk(x.Low)
			sb.WriteString(":")
			walk(x.High)
			if x.Slice3 {
				sb.WriteString(":")
				walk(x.Max)
			}
			sb.WriteString("]")
		case *ast.StarExpr:
			sb.WriteString("*")
			walk(x.X)
		case *ast.UnaryExpr:
			sb.WriteString(x.Op.String())
			walk(x.X)
		case *ast.BinaryExpr:
			walk(x.X)
			sb.WriteString(" " + x.Op.String() + " ")
			walk(x.Y)
		case *ast.KeyValueExpr:
			walk(x.Key)
			sb.WriteString(": ")
			walk(x.Value)
		case *ast.CompositeLit:
			if x.Type != nil {
				sb.WriteString(types.ExprString(x.Type))
			}
			sb.WriteString("{")
			list(x.Elts)
			sb.WriteString("}")
		case *ast.TypeAssertExpr:
			walk(x.X)
			sb.WriteString(".(")
			if x.Type != nil {
				sb.WriteString(types.ExprString(x.Type))
			} else {
				sb.WriteString("type")
			}
			sb.WriteString(")")
		default:
			sb.WriteString(types.ExprString(e))
		}
	}
	walk(e)
	return oneLine(sb.String())
}

package core

import (
	"go/ast"
	"go/constant"
	"go/token"
	"go/types"

	"golang.org/x/tools/go/ast/astutil"
)

// scalarReplace splits a local struct that is only ever used field by field into one local per field.
//
// A function split into phases that pass a small state struct (`call := &handlerCall{w: w, r: r}`,
// then `call.ctx, call.cancel, call.err = …`, `if call.err != nil`) looks, once the phase helpers are
// inlined, exactly like the original function except that its locals are spelled `call.x`. The rules
// follow variables, not access paths into structs; so a local of a first-party struct type (or a
// pointer to a fresh literal of one) whose every mention is the base of a field selection - never
// copied, passed, returned, compared or address-taken - becomes the locals `call_x`. Nothing else can
// observe the struct, so this changes no behaviour.
func (n *normaliser) scalarReplace(fd *ast.FuncDecl) bool {
	changed := false
	for round := 0; round < 4; round++ {
		if !n.scalarReplaceOne(fd) {
			break
		}
		changed = true
		n.p.mutated = true
	}
	return changed
}

func (n *normaliser) scalarReplaceOne(fd *ast.FuncDecl) bool {
	type cand struct {
		obj  *types.Var
		st   *types.Struct
		def  *ast.AssignStmt
		lit  *ast.CompositeLit // nil for `var x T` / new(T)
		decl *ast.DeclStmt
	}
	var cands []*cand
	ast.Inspect(fd.Body, func(x ast.Node) bool {
		switch s := x.(type) {
		case *ast.AssignStmt:
			if s.Tok != token.DEFINE || len(s.Lhs) != 1 || len(s.Rhs) != 1 {
				return true
			}
			id, ok := s.Lhs[0].(*ast.Ident)
			if !ok {
				return true
			}
			obj, _ := n.info.Defs[id].(*types.Var)
			if obj == nil {
				return true
			}
			rhs := s.Rhs[0]
			if u, isAddr := rhs.(*ast.UnaryExpr); isAddr && u.Op == token.AND {
				rhs = u.X
			}
			var lit *ast.CompositeLit
			switch r := rhs.(type) {
			case *ast.CompositeLit:
				lit = r
			case *ast.CallExpr:
				fid, isID := r.Fun.(*ast.Ident)
				if !isID || fid.Name != "new" || len(r.Args) != 1 {
					return true
				}
				if _, isBuiltin := n.info.Uses[fid].(*types.Builtin); !isBuiltin {
					return true
				}
			default:
				return true
			}
			if st := n.localStruct(obj.Type()); st != nil {
				if lit != nil {
					for _, el := range lit.Elts {
						kv, keyed := el.(*ast.KeyValueExpr)
						if !keyed {
							return true
						}
						if _, isID := kv.Key.(*ast.Ident); !isID {
							return true
						}
					}
				}
				cands = append(cands, &cand{obj: obj, st: st, def: s, lit: lit})
			}
		case *ast.DeclStmt:
			gd, ok := s.Decl.(*ast.GenDecl)
			if !ok || gd.Tok != token.VAR || len(gd.Specs) != 1 {
				return true
			}
			vs, ok := gd.Specs[0].(*ast.ValueSpec)
			if !ok || len(vs.Names) != 1 || len(vs.Values) != 0 {
				return true
			}
			obj, _ := n.info.Defs[vs.Names[0]].(*types.Var)
			if obj == nil {
				return true
			}
			if _, isPtr := obj.Type().(*types.Pointer); isPtr {
				return true // a nil pointer
			}
			if st := n.localStruct(obj.Type()); st != nil {
				cands = append(cands, &cand{obj: obj, st: st, decl: s})
			}
		}
		return true
	})
	// a struct-valued local that only ever receives whole keyed literals (what inlining
	// `p, err := helper()` leaves when the helper returns `T{…}, nil`): no defining statement of its own
	have := map[*types.Var]bool{}
	for _, cd := range cands {
		have[cd.obj] = true
	}
	ast.Inspect(fd.Body, func(x ast.Node) bool {
		id, ok := x.(*ast.Ident)
		if !ok {
			return true
		}
		obj, _ := n.info.Uses[id].(*types.Var)
		if obj == nil {
			obj, _ = n.info.Defs[id].(*types.Var)
		}
		if obj == nil || have[obj] || obj.IsField() || obj.Pkg() == nil || obj.Parent() == obj.Pkg().Scope() {
			return true
		}
		if _, isPtr := obj.Type().(*types.Pointer); isPtr {
			return true
		}
		if st := n.localStruct(obj.Type()); st != nil && !n.isParamOrResult(fd, obj) {
			have[obj] = true
			cands = append(cands, &cand{obj: obj, st: st})
		}
		return true
	})
	for _, cd := range cands {
		// every mention is the base of a field selection (the defining identifier aside), or the target of
		// an assignment of a whole keyed literal
		ok := true
		var sels []*ast.SelectorExpr
		type whole struct {
			as  *ast.AssignStmt
			idx int
			lit *ast.CompositeLit
		}
		var wholes []whole
		wholeIdent := map[*ast.Ident]bool{}
		ast.Inspect(fd.Body, func(x ast.Node) bool {
			as, isAs := x.(*ast.AssignStmt)
			if !isAs || len(as.Lhs) != len(as.Rhs) || (as.Tok != token.ASSIGN && as.Tok != token.DEFINE) {
				return true
			}
			for i, l := range as.Lhs {
				id, isID := l.(*ast.Ident)
				if !isID || (n.info.Uses[id] != types.Object(cd.obj) && n.info.Defs[id] != types.Object(cd.obj)) {
					continue
				}
				if cd.def == as {
					continue // the candidate's own `x := T{…}` / `x := &T{…}`
				}
				lit, isLit := as.Rhs[i].(*ast.CompositeLit)
				if !isLit {
					return true
				}
				keyed := true
				for _, el := range lit.Elts {
					kv, isKV := el.(*ast.KeyValueExpr)
					if !isKV {
						keyed = false
						break
					}
					if _, isKey := kv.Key.(*ast.Ident); !isKey {
						keyed = false
					}
				}
				if !keyed {
					return true
				}
				wholes = append(wholes, whole{as, i, lit})
				wholeIdent[id] = true
			}
			return true
		})
		var stack []ast.Node
		ast.Inspect(fd.Body, func(x ast.Node) bool {
			if x == nil {
				stack = stack[:len(stack)-1]
				return false
			}
			stack = append(stack, x)
			id, isID := x.(*ast.Ident)
			if !isID || (n.info.Uses[id] != types.Object(cd.obj) && !(n.info.Defs[id] == types.Object(cd.obj) && cd.def == nil && cd.decl == nil)) {
				return true
			}
			if wholeIdent[id] {
				return true
			}
			if len(stack) < 2 {
				ok = false
				return true
			}
			sel, isSel := stack[len(stack)-2].(*ast.SelectorExpr)
			if !isSel || sel.X != ast.Expr(id) {
				ok = false
				return true
			}
			s := n.info.Selections[sel]
			if s == nil || s.Kind() != types.FieldVal || len(s.Index()) != 1 {
				ok = false
				return true
			}
			// &call.f hands out a pointer into the struct: fine for a split local too, but a closure that
			// captures it later would see the field, keep it simple
			if len(stack) >= 3 {
				if u, isU := stack[len(stack)-3].(*ast.UnaryExpr); isU && u.Op == token.AND {
					ok = false
				}
			}
			sels = append(sels, sel)
			return true
		})
		// captured by a function literal: the literal may run later; keep it simple
		ast.Inspect(fd.Body, func(x ast.Node) bool {
			if lit, isLit := x.(*ast.FuncLit); isLit {
				if n.mentionsObj(lit, map[types.Object]bool{cd.obj: true}) {
					ok = false
				}
			}
			return ok
		})
		if !ok || len(sels) == 0 {
			continue
		}
		if cd.def == nil && cd.decl == nil && len(wholes) == 0 {
			continue
		}
		// zero values for the fields a literal leaves out must be writable
		zeroOK := true
		for _, w := range wholes {
			givenF := map[string]bool{}
			for _, el := range w.lit.Elts {
				givenF[el.(*ast.KeyValueExpr).Key.(*ast.Ident).Name] = true
			}
			for i := 0; i < cd.st.NumFields(); i++ {
				if !givenF[cd.st.Field(i).Name()] && n.zeroExpr(cd.st.Field(i).Type(), token.NoPos) == nil {
					zeroOK = false
				}
			}
		}
		if !zeroOK {
			continue
		}
		// one local per field
		fieldVar := map[*types.Var]*types.Var{}
		for i := 0; i < cd.st.NumFields(); i++ {
			f := cd.st.Field(i)
			fieldVar[f] = types.NewVar(cd.obj.Pos(), cd.obj.Pkg(), cd.obj.Name()+"_"+f.Name(), f.Type())
		}
		selSet := map[*ast.SelectorExpr]bool{}
		for _, s := range sels {
			selSet[s] = true
		}
		astutil.Apply(fd.Body, nil, func(c *astutil.Cursor) bool {
			sel, isSel := c.Node().(*ast.SelectorExpr)
			if !isSel || !selSet[sel] {
				return true
			}
			f, _ := n.info.Uses[sel.Sel].(*types.Var)
			nv := fieldVar[f]
			if nv == nil {
				return true
			}
			id := &ast.Ident{Name: nv.Name(), NamePos: sel.Pos()}
			n.info.Uses[id] = nv
			if tv, has := n.info.Types[sel]; has {
				n.info.Types[id] = tv
			}
			c.Replace(id)
			return true
		})
		// whole-literal assignments become parallel assignments of the fields
		for _, w := range wholes {
			byName := map[string]ast.Expr{}
			for _, el := range w.lit.Elts {
				kv := el.(*ast.KeyValueExpr)
				byName[kv.Key.(*ast.Ident).Name] = kv.Value
			}
			var lhs, rhs []ast.Expr
			for i := 0; i < cd.st.NumFields(); i++ {
				f := cd.st.Field(i)
				nv := fieldVar[f]
				id := &ast.Ident{Name: nv.Name(), NamePos: w.as.Lhs[w.idx].Pos()}
				if w.as.Tok == token.DEFINE {
					n.info.Defs[id] = nv
				} else {
					n.info.Uses[id] = nv
				}
				n.info.Types[id] = types.TypeAndValue{Type: f.Type()}
				lhs = append(lhs, id)
				if v, given := byName[f.Name()]; given {
					rhs = append(rhs, v)
				} else {
					rhs = append(rhs, n.zeroExpr(f.Type(), w.lit.Pos()))
				}
			}
			w.as.Lhs = append(append(append([]ast.Expr(nil), w.as.Lhs[:w.idx]...), lhs...), w.as.Lhs[w.idx+1:]...)
			w.as.Rhs = append(append(append([]ast.Expr(nil), w.as.Rhs[:w.idx]...), rhs...), w.as.Rhs[w.idx+1:]...)
			// later wholes of the same statement shift
			for j := range wholes {
				if wholes[j].as == w.as && wholes[j].idx > w.idx {
					wholes[j].idx += len(lhs) - 1
				}
			}
		}
		if cd.def == nil && cd.decl == nil {
			return true
		}
		// the definition: one statement per field, values of the literal first (in its order), the
		// remaining fields as zero-valued declarations
		var stmts []ast.Stmt
		given := map[*types.Var]bool{}
		pos := cd.obj.Pos()
		if cd.lit != nil {
			for _, el := range cd.lit.Elts {
				kv := el.(*ast.KeyValueExpr)
				f, _ := n.info.Uses[kv.Key.(*ast.Ident)].(*types.Var)
				nv := fieldVar[f]
				if nv == nil {
					continue
				}
				given[f] = true
				id := &ast.Ident{Name: nv.Name(), NamePos: kv.Pos()}
				n.info.Defs[id] = nv
				stmts = append(stmts, &ast.AssignStmt{Lhs: []ast.Expr{id}, Tok: token.DEFINE, TokPos: kv.Pos(), Rhs: []ast.Expr{kv.Value}})
			}
		}
		for i := 0; i < cd.st.NumFields(); i++ {
			f := cd.st.Field(i)
			if given[f] {
				continue
			}
			nv := fieldVar[f]
			id := &ast.Ident{Name: nv.Name(), NamePos: pos}
			n.info.Defs[id] = nv
			typ := ast.NewIdent(types.TypeString(f.Type(), func(p *types.Package) string { return p.Name() }))
			n.info.Types[typ] = types.TypeAndValue{Type: f.Type()}
			stmts = append(stmts, &ast.DeclStmt{Decl: &ast.GenDecl{Tok: token.VAR, TokPos: pos, Specs: []ast.Spec{&ast.ValueSpec{Names: []*ast.Ident{id}, Type: typ}}}})
		}
		var old ast.Stmt = cd.def
		if cd.def == nil {
			old = cd.decl
		}
		replaced := false
		astutil.Apply(fd.Body, nil, func(c *astutil.Cursor) bool {
			if c.Node() != ast.Node(old) || replaced {
				return true
			}
			if c.Index() >= 0 {
				for _, s := range stmts {
					c.InsertBefore(s)
				}
				c.Delete()
			} else {
				c.Replace(&ast.BlockStmt{List: stmts})
			}
			replaced = true
			return true
		})
		if replaced {
			return true
		}
	}
	return false
}

// localStruct: t is (a pointer to) a named struct type of the package being analysed.
func (n *normaliser) localStruct(t types.Type) *types.Struct {
	if p, ok := t.(*types.Pointer); ok {
		t = p.Elem()
	}
	nt, ok := t.(*types.Named)
	if !ok || nt.Obj().Pkg() != n.pkg.Types || nt.TypeParams().Len() > 0 {
		return nil
	}
	st, _ := nt.Underlying().(*types.Struct)
	return st
}

func (n *normaliser) isParamOrResult(fd *ast.FuncDecl, obj *types.Var) bool {
	for _, fl := range []*ast.FieldList{fd.Recv, fd.Type.Params, fd.Type.Results} {
		if fl == nil {
			continue
		}
		for _, f := range fl.List {
			for _, nm := range f.Names {
				if n.info.Defs[nm] == types.Object(obj) {
					return true
				}
			}
		}
	}
	return false
}

// zeroExpr writes the zero value of t as an expression, or returns nil when there is no literal for it.
func (n *normaliser) zeroExpr(t types.Type, pos token.Pos) ast.Expr {
	var e ast.Expr
	switch u := t.Underlying().(type) {
	case *types.Basic:
		switch {
		case u.Info()&types.IsBoolean != 0:
			id := &ast.Ident{Name: "false", NamePos: pos}
			n.info.Uses[id] = types.Universe.Lookup("false")
			e = id
		case u.Info()&types.IsString != 0:
			e = &ast.BasicLit{Kind: token.STRING, Value: `""`, ValuePos: pos}
		case u.Info()&types.IsNumeric != 0:
			e = &ast.BasicLit{Kind: token.INT, Value: "0", ValuePos: pos}
		default:
			return nil
		}
	case *types.Pointer, *types.Slice, *types.Map, *types.Chan, *types.Signature, *types.Interface:
		id := &ast.Ident{Name: "nil", NamePos: pos}
		n.info.Uses[id] = types.Universe.Lookup("nil")
		e = id
	default:
		return nil
	}
	tv := types.TypeAndValue{Type: t}
	if u, ok := t.Underlying().(*types.Basic); ok {
		switch {
		case u.Info()&types.IsBoolean != 0:
			tv.Value = constant.MakeBool(false)
		case u.Info()&types.IsString != 0:
			tv.Value = constant.MakeString("")
		case u.Info()&types.IsInteger != 0:
			tv.Value = constant.MakeInt64(0)
		case u.Info()&types.IsFloat != 0:
			tv.Value = constant.MakeFloat64(0)
		}
	}
	n.info.Types[e] = tv
	return e
}

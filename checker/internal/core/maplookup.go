package core

import (
	"go/ast"
	"go/token"
	"go/types"

	"golang.org/x/tools/go/ast/astutil"

	"verif/checker/internal/astx"
)

// canonMapLookup rewrites a table kept as a map literal and consulted with the comma-ok idiom
//
//	if v, ok := table[x]; ok { return v }
//
// (or `v, ok := table[x]` followed by `if ok { return v }` / `if !ok { return d }; return v`) into
// the switch it stands for: `switch x { case k1: return v1; … }`. The table is a local defined once
// by a map composite literal, or a package-level variable initialised by one that nothing in the
// package writes, deletes from, re-assigns or takes the address of. Keys of a map literal are
// distinct constants (the compiler rejects duplicates), so the two forms agree for every x.
func (n *normaliser) canonMapLookup(fd *ast.FuncDecl) bool {
	if fd.Body == nil {
		return false
	}
	changed := false
	astutil.Apply(fd.Body, nil, func(c *astutil.Cursor) bool {
		ifs, ok := c.Node().(*ast.IfStmt)
		if !ok || ifs.Else != nil || c.Index() < 0 {
			return true
		}
		list := stmtList(c.Parent())
		if list == nil {
			return true
		}
		var as *ast.AssignStmt
		separate := false
		if ifs.Init != nil {
			as, _ = ifs.Init.(*ast.AssignStmt)
		} else if c.Index() > 0 {
			as, _ = list[c.Index()-1].(*ast.AssignStmt)
			separate = true
		}
		if as == nil || as.Tok != token.DEFINE || len(as.Lhs) != 2 || len(as.Rhs) != 1 {
			return true
		}
		ie, ok := astx.Unparen(as.Rhs[0]).(*ast.IndexExpr)
		if !ok {
			return true
		}
		lit := n.tableLiteral(fd, ie.X)
		if lit == nil {
			return true
		}
		vObj, okObj := astx.ObjOf(n.info, as.Lhs[0]), astx.ObjOf(n.info, as.Lhs[1])
		if vObj == nil || okObj == nil {
			return true
		}
		// if ok { return v }
		pos := true
		cond := astx.Unparen(ifs.Cond)
		if ue, isNot := cond.(*ast.UnaryExpr); isNot && ue.Op == token.NOT {
			pos = false
			cond = astx.Unparen(ue.X)
		}
		if astx.ObjOf(n.info, cond) != okObj {
			return true
		}
		if len(ifs.Body.List) != 1 {
			return true
		}
		ret, ok := ifs.Body.List[0].(*ast.ReturnStmt)
		if !ok || len(ret.Results) != 1 {
			return true
		}
		var deflt *ast.ReturnStmt
		if pos {
			if astx.ObjOf(n.info, ret.Results[0]) != vObj {
				return true
			}
		} else {
			// if !ok { return d }; return v
			if c.Index()+1 >= len(list) {
				return true
			}
			next, ok := list[c.Index()+1].(*ast.ReturnStmt)
			if !ok || len(next.Results) != 1 || astx.ObjOf(n.info, next.Results[0]) != vObj {
				return true
			}
			if astx.Mentions(n.info, ret, vObj) {
				return true
			}
			deflt = ret
		}
		// v and ok must not be used anywhere else
		uses := 0
		ast.Inspect(fd.Body, func(x ast.Node) bool {
			if id, ok := x.(*ast.Ident); ok && (n.info.Uses[id] == vObj || n.info.Uses[id] == okObj) {
				uses++
			}
			return true
		})
		if uses != 2 {
			return true
		}
		sw := &ast.SwitchStmt{Switch: ifs.Pos(), Tag: ie.Index, Body: &ast.BlockStmt{Lbrace: ifs.Pos(), Rbrace: ifs.End()}}
		for _, el := range lit.Elts {
			kv, ok := el.(*ast.KeyValueExpr)
			if !ok {
				return true
			}
			sw.Body.List = append(sw.Body.List, &ast.CaseClause{Case: kv.Pos(), Colon: kv.Colon, List: []ast.Expr{kv.Key},
				Body: []ast.Stmt{&ast.ReturnStmt{Return: kv.Value.Pos(), Results: []ast.Expr{kv.Value}}}})
		}
		if deflt != nil {
			sw.Body.List = append(sw.Body.List, &ast.CaseClause{Case: deflt.Pos(), Colon: deflt.Pos(), Body: []ast.Stmt{deflt}})
		}
		if tv, ok := n.info.Types[ie.Index]; ok {
			n.info.Types[sw.Tag] = tv
		}
		c.Replace(sw)
		if separate {
			list[c.Index()-1] = &ast.EmptyStmt{Semicolon: as.Pos(), Implicit: true}
		}
		if deflt != nil {
			list[c.Index()+1] = &ast.EmptyStmt{Semicolon: deflt.Pos(), Implicit: true}
		}
		changed = true
		n.p.mutated = true
		n.p.Substituted = append(n.p.Substituted, FuncName(fd)+".<map table → switch>")
		return true
	})
	return changed
}

// tableLiteral resolves e to the map composite literal of a table nothing modifies.
func (n *normaliser) tableLiteral(fd *ast.FuncDecl, e ast.Expr) *ast.CompositeLit {
	obj, ok := astx.ObjOf(n.info, e).(*types.Var)
	if !ok || obj.IsField() {
		return nil
	}
	if _, isMap := obj.Type().Underlying().(*types.Map); !isMap {
		if _, isArr := obj.Type().Underlying().(*types.Array); !isArr || !n.arraysToo {
			return nil
		}
	}
	var lit *ast.CompositeLit
	var scope []ast.Node
	if obj.Parent() == obj.Pkg().Scope() {
		for _, f := range n.pkg.Syntax {
			scope = append(scope, f)
			for _, d := range f.Decls {
				gd, ok := d.(*ast.GenDecl)
				if !ok || gd.Tok != token.VAR {
					continue
				}
				for _, s := range gd.Specs {
					vs := s.(*ast.ValueSpec)
					for i, name := range vs.Names {
						if n.info.Defs[name] == types.Object(obj) && i < len(vs.Values) {
							lit, _ = astx.Unparen(vs.Values[i]).(*ast.CompositeLit)
						}
					}
				}
			}
		}
	} else {
		scope = []ast.Node{fd.Body}
		defs := 0
		ast.Inspect(fd.Body, func(x ast.Node) bool {
			switch s := x.(type) {
			case *ast.AssignStmt:
				for i, l := range s.Lhs {
					if id, ok := l.(*ast.Ident); ok && n.info.Defs[id] == types.Object(obj) && len(s.Lhs) == len(s.Rhs) {
						defs++
						lit, _ = astx.Unparen(s.Rhs[i]).(*ast.CompositeLit)
					}
				}
			case *ast.ValueSpec:
				for i, name := range s.Names {
					if n.info.Defs[name] == types.Object(obj) && i < len(s.Values) {
						defs++
						lit, _ = astx.Unparen(s.Values[i]).(*ast.CompositeLit)
					}
				}
			}
			return true
		})
		if defs != 1 {
			return nil
		}
	}
	if lit == nil {
		return nil
	}
	// nothing writes the table
	written := false
	for _, sc := range scope {
		ast.Inspect(sc, func(x ast.Node) bool {
			switch s := x.(type) {
			case *ast.AssignStmt:
				for _, l := range s.Lhs {
					l = astx.Unparen(l)
					if ie, ok := l.(*ast.IndexExpr); ok && astx.ObjOf(n.info, ie.X) == types.Object(obj) {
						written = true
					}
					if id, ok := l.(*ast.Ident); ok && n.info.Uses[id] == types.Object(obj) {
						written = true
					}
				}
			case *ast.UnaryExpr:
				if s.Op == token.AND && astx.ObjOf(n.info, s.X) == types.Object(obj) {
					written = true
				}
			case *ast.CallExpr:
				if id, ok := s.Fun.(*ast.Ident); ok {
					if b, ok := n.info.Uses[id].(*types.Builtin); ok && (b.Name() == "delete" || b.Name() == "clear") && len(s.Args) > 0 && astx.ObjOf(n.info, s.Args[0]) == types.Object(obj) {
						written = true
					}
				}
				// handed to another function: could be written there
				for _, a := range s.Args {
					if astx.ObjOf(n.info, a) == types.Object(obj) {
						if id, ok := s.Fun.(*ast.Ident); ok {
							if b, ok := n.info.Uses[id].(*types.Builtin); ok && b.Name() == "len" {
								continue
							}
						}
						written = true
					}
				}
			}
			return true
		})
	}
	if written {
		return nil
	}
	for _, el := range lit.Elts {
		if _, ok := el.(*ast.KeyValueExpr); !ok {
			return nil
		}
	}
	return lit
}

package core

import (
	"go/ast"
	"go/constant"
	"go/token"
	"go/types"
	"sort"

	"golang.org/x/tools/go/ast/astutil"

	"verif/checker/internal/astx"
)

// canonArrayTable rewrites a table kept as an array literal with constant keys
//
//	var names = [hi + 1]string{K1: "a", K2: "b", …}          // keys dense over lo..hi
//
// and consulted under a range test or searched by a loop over that range
//
//	if x >= lo && x <= hi { return names[x] }
//	for k := lo; k <= hi; k++ { if names[k] == s { *p = k; return nil } }
//
// into the switches it stands for (`switch x { case K1: return "a"; … }`, `switch s { case "a": *p =
// K1; return nil; … }`). The table is a package-level variable that nothing writes, re-assigns or takes
// the address of; for the search the values are distinct constants, so the first match is the only one.
func (n *normaliser) canonArrayTable(fd *ast.FuncDecl) bool {
	if fd.Body == nil {
		return false
	}
	n.arraysToo = true
	defer func() { n.arraysToo = false }()
	changed := false
	astutil.Apply(fd.Body, nil, func(c *astutil.Cursor) bool {
		switch st := c.Node().(type) {
		case *ast.IfStmt:
			if st.Else != nil || st.Init != nil || len(st.Body.List) != 1 {
				return true
			}
			ret, ok := st.Body.List[0].(*ast.ReturnStmt)
			if !ok || len(ret.Results) != 1 {
				return true
			}
			ie, ok := astx.Unparen(ret.Results[0]).(*ast.IndexExpr)
			if !ok {
				return true
			}
			tbl := n.arrayTable(fd, ie.X)
			if tbl == nil {
				return true
			}
			lo, hi, ok := n.rangeTest(st.Cond, ie.Index)
			if !ok || lo != tbl.lo || hi != tbl.hi {
				return true
			}
			sw := &ast.SwitchStmt{Switch: st.Pos(), Tag: ie.Index, Body: &ast.BlockStmt{Lbrace: st.Body.Lbrace, Rbrace: st.Body.Rbrace}}
			for _, e := range tbl.entries {
				sw.Body.List = append(sw.Body.List, &ast.CaseClause{Case: e.key.Pos(), List: []ast.Expr{e.key}, Body: []ast.Stmt{&ast.ReturnStmt{Return: ret.Return, Results: []ast.Expr{e.val}}}})
			}
			c.Replace(sw)
			changed = true
		case *ast.ForStmt:
			// for k := lo; k <= hi; k++ { if T[k] == s { …; return … } }
			init, ok := st.Init.(*ast.AssignStmt)
			if !ok || init.Tok != token.DEFINE || len(init.Lhs) != 1 || len(init.Rhs) != 1 || len(st.Body.List) != 1 {
				return true
			}
			kid, ok := init.Lhs[0].(*ast.Ident)
			if !ok {
				return true
			}
			kobj := n.info.Defs[kid]
			post, ok := st.Post.(*ast.IncDecStmt)
			if !ok || post.Tok != token.INC || astx.ObjOf(n.info, post.X) != kobj || kobj == nil {
				return true
			}
			lo, okLo := constInt(n.info, init.Rhs[0])
			cond, ok := astx.Unparen(st.Cond).(*ast.BinaryExpr)
			if !okLo || !ok || cond.Op != token.LEQ || astx.ObjOf(n.info, cond.X) != kobj {
				return true
			}
			hi, okHi := constInt(n.info, cond.Y)
			inner, ok := st.Body.List[0].(*ast.IfStmt)
			if !okHi || !ok || inner.Else != nil || inner.Init != nil || len(inner.Body.List) == 0 {
				return true
			}
			if _, endsInReturn := inner.Body.List[len(inner.Body.List)-1].(*ast.ReturnStmt); !endsInReturn {
				return true
			}
			eq, ok := astx.Unparen(inner.Cond).(*ast.BinaryExpr)
			if !ok || eq.Op != token.EQL {
				return true
			}
			var ie *ast.IndexExpr
			var other ast.Expr
			if x, isIx := astx.Unparen(eq.X).(*ast.IndexExpr); isIx {
				ie, other = x, eq.Y
			} else if y, isIy := astx.Unparen(eq.Y).(*ast.IndexExpr); isIy {
				ie, other = y, eq.X
			}
			if ie == nil || astx.ObjOf(n.info, ie.Index) != kobj || n.mentionsObj(other, map[types.Object]bool{kobj: true}) {
				return true
			}
			tbl := n.arrayTable(fd, ie.X)
			if tbl == nil || lo != tbl.lo || hi != tbl.hi || !tbl.distinct {
				return true
			}
			// the loop variable is only read in the body
			written := false
			ast.Inspect(inner.Body, func(x ast.Node) bool {
				switch y := x.(type) {
				case *ast.AssignStmt:
					for _, l := range y.Lhs {
						if astx.ObjOf(n.info, l) == kobj {
							written = true
						}
					}
				case *ast.IncDecStmt:
					if astx.ObjOf(n.info, y.X) == kobj {
						written = true
					}
				case *ast.UnaryExpr:
					if y.Op == token.AND && astx.ObjOf(n.info, y.X) == kobj {
						written = true
					}
				case *ast.FuncLit:
					written = true
				}
				return !written
			})
			if written {
				return true
			}
			sw := &ast.SwitchStmt{Switch: st.Pos(), Tag: other, Body: &ast.BlockStmt{Lbrace: st.Body.Lbrace, Rbrace: st.Body.Rbrace}}
			for _, e := range tbl.entries {
				body := n.in.clone(inner.Body, map[types.Object]ast.Expr{kobj: e.key}).(*ast.BlockStmt)
				sw.Body.List = append(sw.Body.List, &ast.CaseClause{Case: e.val.Pos(), List: []ast.Expr{e.val}, Body: body.List})
			}
			c.Replace(sw)
			changed = true
		}
		return true
	})
	if changed {
		n.p.mutated = true
	}
	return changed
}

type arrayEntry struct {
	k   int64
	key ast.Expr
	val ast.Expr
}

type arrayTbl struct {
	lo, hi   int64
	entries  []arrayEntry
	distinct bool
}

// arrayTable: e names an unwritten array variable whose literal has constant keys that are dense over
// lo..hi (every element outside is the zero value and never looked at by the patterns above).
func (n *normaliser) arrayTable(fd *ast.FuncDecl, e ast.Expr) *arrayTbl {
	lit := n.tableLiteral(fd, e)
	if lit == nil || len(lit.Elts) == 0 {
		return nil
	}
	if _, isArr := n.info.TypeOf(lit).Underlying().(*types.Array); !isArr {
		return nil
	}
	t := &arrayTbl{distinct: true}
	seenVal := map[string]bool{}
	for _, el := range lit.Elts {
		kv, ok := el.(*ast.KeyValueExpr)
		if !ok {
			return nil
		}
		k, ok := constInt(n.info, kv.Key)
		if !ok {
			return nil
		}
		t.entries = append(t.entries, arrayEntry{k, kv.Key, kv.Value})
		if tv, has := n.info.Types[kv.Value]; has && tv.Value != nil {
			key := tv.Value.ExactString()
			if seenVal[key] {
				t.distinct = false
			}
			seenVal[key] = true
		} else {
			t.distinct = false
		}
	}
	sort.Slice(t.entries, func(i, j int) bool { return t.entries[i].k < t.entries[j].k })
	t.lo, t.hi = t.entries[0].k, t.entries[len(t.entries)-1].k
	for i, en := range t.entries {
		if en.k != t.lo+int64(i) {
			return nil
		}
	}
	return t
}

func constInt(info *types.Info, e ast.Expr) (int64, bool) {
	tv, ok := info.Types[e]
	if !ok || tv.Value == nil || tv.Value.Kind() != constant.Int {
		return 0, false
	}
	return constant.Int64Val(tv.Value)
}

// rangeTest: cond is `x >= lo && x <= hi` (in either order, with the constants on the right).
func (n *normaliser) rangeTest(cond, x ast.Expr) (int64, int64, bool) {
	be, ok := astx.Unparen(cond).(*ast.BinaryExpr)
	if !ok || be.Op != token.LAND {
		return 0, 0, false
	}
	key := types.ExprString(astx.Unparen(x))
	var lo, hi int64
	var haveLo, haveHi bool
	for _, side := range []ast.Expr{be.X, be.Y} {
		c, ok := astx.Unparen(side).(*ast.BinaryExpr)
		if !ok || types.ExprString(astx.Unparen(c.X)) != key {
			return 0, 0, false
		}
		v, ok := constInt(n.info, c.Y)
		if !ok {
			return 0, 0, false
		}
		switch c.Op {
		case token.GEQ:
			lo, haveLo = v, true
		case token.GTR:
			lo, haveLo = v+1, true
		case token.LEQ:
			hi, haveHi = v, true
		case token.LSS:
			hi, haveHi = v-1, true
		default:
			return 0, 0, false
		}
	}
	return lo, hi, haveLo && haveHi
}

// Package astx holds type-resolved syntax helpers shared by the rules.
package astx

import (
	"go/ast"
	"go/constant"
	"go/token"
	"go/types"
	"strings"

	"golang.org/x/tools/go/types/typeutil"
)

// Callee resolves the static callee (function, concrete or interface method, builtin) of a call.
func Callee(info *types.Info, call *ast.CallExpr) types.Object {
	return typeutil.Callee(info, call)
}

// CalleeFunc is Callee restricted to *types.Func.
func CalleeFunc(info *types.Info, call *ast.CallExpr) *types.Func {
	fn, _ := typeutil.Callee(info, call).(*types.Func)
	return fn
}

// RecvNamed returns the named receiver type of a method (through a pointer), or nil.
func RecvNamed(fn *types.Func) *types.Named {
	if fn == nil {
		return nil
	}
	sig, _ := fn.Type().(*types.Signature)
	if sig == nil || sig.Recv() == nil {
		return nil
	}
	return NamedOf(sig.Recv().Type())
}

// NamedOf strips pointers and returns the named type, or nil.
func NamedOf(t types.Type) *types.Named {
	for {
		switch x := t.(type) {
		case *types.Pointer:
			t = x.Elem()
			continue
		case *types.Alias:
			t = types.Unalias(x)
			continue
		case *types.Named:
			return x
		}
		return nil
	}
}

// TypeIs reports whether t (through pointers) is the named type pkgPath.name.
func TypeIs(t types.Type, pkgPath, name string) bool {
	n := NamedOf(t)
	if n == nil || n.Obj() == nil {
		return false
	}
	if n.Obj().Name() != name {
		return false
	}
	if n.Obj().Pkg() == nil {
		return pkgPath == ""
	}
	return n.Obj().Pkg().Path() == pkgPath
}

// IsPkgFunc reports whether obj is the package-level function pkgPath.name.
func IsPkgFunc(obj types.Object, pkgPath, name string) bool {
	fn, ok := obj.(*types.Func)
	if !ok || fn.Pkg() == nil || fn.Pkg().Path() != pkgPath || fn.Name() != name {
		return false
	}
	sig, _ := fn.Type().(*types.Signature)
	return sig != nil && sig.Recv() == nil
}

// IsMethod reports whether obj is the method name of the named type pkgPath.typeName
// (typeName may be an interface or a concrete type; "" matches any type of the package).
func IsMethod(obj types.Object, pkgPath, typeName, name string) bool {
	fn, ok := obj.(*types.Func)
	if !ok || fn.Name() != name {
		return false
	}
	n := RecvNamed(fn)
	if n == nil {
		// interface method declared in an unnamed/embedded interface: use the package of the func.
		if fn.Pkg() == nil || fn.Pkg().Path() != pkgPath {
			return false
		}
		return typeName == ""
	}
	if n.Obj().Pkg() == nil || n.Obj().Pkg().Path() != pkgPath {
		return false
	}
	return typeName == "" || n.Obj().Name() == typeName
}

// MethodName returns "Type.method" for methods and "name" for functions ("" if unknown).
func MethodName(obj types.Object) string {
	fn, ok := obj.(*types.Func)
	if !ok {
		if obj != nil {
			return obj.Name()
		}
		return ""
	}
	if n := RecvNamed(fn); n != nil {
		return n.Obj().Name() + "." + fn.Name()
	}
	return fn.Name()
}

// QualifiedName returns pkgpath.Type.method / pkgpath.func.
func QualifiedName(obj types.Object) string {
	if obj == nil {
		return ""
	}
	if obj.Pkg() == nil {
		return obj.Name()
	}
	return obj.Pkg().Path() + "." + MethodName(obj)
}

// ConstInt returns the integer constant value of e, if any.
func ConstInt(info *types.Info, e ast.Expr) (int64, bool) {
	tv, ok := info.Types[e]
	if !ok || tv.Value == nil {
		return 0, false
	}
	v := constant.ToInt(tv.Value)
	if v.Kind() != constant.Int {
		return 0, false
	}
	i, exact := constant.Int64Val(v)
	return i, exact
}

// ConstString returns the string constant value of e, if any.
func ConstString(info *types.Info, e ast.Expr) (string, bool) {
	tv, ok := info.Types[e]
	if !ok || tv.Value == nil || tv.Value.Kind() != constant.String {
		return "", false
	}
	return constant.StringVal(tv.Value), true
}

// ConstObj returns the *types.Const an expression names (identifier or qualified identifier).
func ConstObj(info *types.Info, e ast.Expr) *types.Const {
	switch x := Unparen(e).(type) {
	case *ast.Ident:
		c, _ := info.Uses[x].(*types.Const)
		return c
	case *ast.SelectorExpr:
		c, _ := info.Uses[x.Sel].(*types.Const)
		return c
	}
	return nil
}

// Unparen strips parentheses.
func Unparen(e ast.Expr) ast.Expr {
	for {
		p, ok := e.(*ast.ParenExpr)
		if !ok {
			return e
		}
		e = p.X
	}
}

// ObjOf returns the object an identifier or selector's final name refers to.
func ObjOf(info *types.Info, e ast.Expr) types.Object {
	switch x := Unparen(e).(type) {
	case *ast.Ident:
		if o := info.Uses[x]; o != nil {
			return o
		}
		return info.Defs[x]
	case *ast.SelectorExpr:
		if sel := info.Selections[x]; sel != nil {
			return sel.Obj()
		}
		return info.Uses[x.Sel]
	}
	return nil
}

// FieldOf: if e is a field selection, return the selected field var.
func FieldOf(info *types.Info, e ast.Expr) *types.Var {
	s, ok := Unparen(e).(*ast.SelectorExpr)
	if !ok {
		return nil
	}
	sel := info.Selections[s]
	if sel == nil || sel.Kind() != types.FieldVal {
		return nil
	}
	v, _ := sel.Obj().(*types.Var)
	return v
}

// IsFieldNamed reports whether e selects a field with this name.
func IsFieldNamed(info *types.Info, e ast.Expr, name string) bool {
	v := FieldOf(info, e)
	return v != nil && v.Name() == name
}

// IsNil reports whether e is the predeclared nil.
func IsNil(info *types.Info, e ast.Expr) bool {
	id, ok := Unparen(e).(*ast.Ident)
	if !ok {
		return false
	}
	_, isNil := info.Uses[id].(*types.Nil)
	return isNil
}

// Calls returns every call expression inside n (not descending into function literals),
// in source order.
func Calls(n ast.Node) []*ast.CallExpr {
	var out []*ast.CallExpr
	ast.Inspect(n, func(x ast.Node) bool {
		switch c := x.(type) {
		case *ast.FuncLit:
			return false
		case *ast.CallExpr:
			out = append(out, c)
		}
		return true
	})
	return out
}

// CallsDeep is Calls but descends into function literals as well.
func CallsDeep(n ast.Node) []*ast.CallExpr {
	var out []*ast.CallExpr
	ast.Inspect(n, func(x ast.Node) bool {
		if c, ok := x.(*ast.CallExpr); ok {
			out = append(out, c)
		}
		return true
	})
	return out
}

// Mentions reports whether obj is referenced inside n.
func Mentions(info *types.Info, n ast.Node, obj types.Object) bool {
	found := false
	ast.Inspect(n, func(x ast.Node) bool {
		if found {
			return false
		}
		if id, ok := x.(*ast.Ident); ok && (info.Uses[id] == obj || info.Defs[id] == obj) {
			found = true
		}
		return true
	})
	return found
}

// ExprString prints an expression with constants kept (types.ExprString elides some literals).
func ExprString(e ast.Expr) string {
	return types.ExprString(e)
}

// Ident key: name plus declaration position, so shadowed variables differ.
func identKey(info *types.Info, id *ast.Ident) string {
	obj := info.Uses[id]
	if obj == nil {
		obj = info.Defs[id]
	}
	if v, ok := obj.(*types.Var); ok && !v.IsField() && v.Pos().IsValid() {
		return id.Name + "@" + itoa(int(v.Pos()))
	}
	return id.Name
}

func itoa(i int) string {
	if i == 0 {
		return "0"
	}
	var b []byte
	for i > 0 {
		b = append([]byte{byte('0' + i%10)}, b...)
		i /= 10
	}
	return string(b)
}

// CanonKey renders e with variable identity baked in.
func CanonKey(info *types.Info, e ast.Expr) string {
	var sb strings.Builder
	var walk func(e ast.Expr)
	walk = func(e ast.Expr) {
		switch x := e.(type) {
		case *ast.Ident:
			sb.WriteString(identKey(info, x))
		case *ast.ParenExpr:
			walk(x.X)
		case *ast.SelectorExpr:
			walk(x.X)
			sb.WriteString("." + x.Sel.Name)
		case *ast.BinaryExpr:
			sb.WriteString("(")
			walk(x.X)
			sb.WriteString(" " + x.Op.String() + " ")
			walk(x.Y)
			sb.WriteString(")")
		case *ast.UnaryExpr:
			sb.WriteString(x.Op.String())
			walk(x.X)
		case *ast.StarExpr:
			sb.WriteString("*")
			walk(x.X)
		case *ast.CallExpr:
			walk(x.Fun)
			sb.WriteString("(")
			for i, a := range x.Args {
				if i > 0 {
					sb.WriteString(", ")
				}
				walk(a)
			}
			sb.WriteString(")")
		case *ast.IndexExpr:
			walk(x.X)
			sb.WriteString("[")
			walk(x.Index)
			sb.WriteString("]")
		case *ast.BasicLit:
			sb.WriteString(x.Value)
		default:
			sb.WriteString(types.ExprString(e))
		}
	}
	walk(e)
	return sb.String()
}

// VarsIn collects the variables (non-field) referenced in e.
func VarsIn(info *types.Info, e ast.Node) map[types.Object]bool {
	out := map[types.Object]bool{}
	ast.Inspect(e, func(n ast.Node) bool {
		if id, ok := n.(*ast.Ident); ok {
			if v, ok := info.Uses[id].(*types.Var); ok && !v.IsField() {
				out[v] = true
			} else if v, ok := info.Defs[id].(*types.Var); ok && !v.IsField() {
				out[v] = true // a synthesized fact may reuse the defining identifier
			}
		}
		return true
	})
	return out
}

// IsErrorsIs matches errors.Is(x, target) and returns x, target.
func IsErrorsIs(info *types.Info, e ast.Expr) (x, target ast.Expr, ok bool) {
	call, isCall := Unparen(e).(*ast.CallExpr)
	if !isCall || len(call.Args) != 2 {
		return nil, nil, false
	}
	if !IsPkgFunc(Callee(info, call), "errors", "Is") {
		return nil, nil, false
	}
	return call.Args[0], call.Args[1], true
}

// IsPkgVar reports whether e names the package-level variable pkgPath.name.
func IsPkgVar(info *types.Info, e ast.Expr, pkgPath, name string) bool {
	obj := ObjOf(info, e)
	v, ok := obj.(*types.Var)
	if !ok || v.Pkg() == nil || v.Pkg().Path() != pkgPath || v.Name() != name {
		return false
	}
	return v.Parent() == v.Pkg().Scope()
}

// CompareOp normalises a comparison: returns (lhs, op, rhs) of a BinaryExpr with a comparison operator.
func CompareOp(e ast.Expr) (ast.Expr, token.Token, ast.Expr, bool) {
	b, ok := Unparen(e).(*ast.BinaryExpr)
	if !ok {
		return nil, 0, nil, false
	}
	switch b.Op {
	case token.EQL, token.NEQ, token.LSS, token.LEQ, token.GTR, token.GEQ:
		return b.X, b.Op, b.Y, true
	}
	return nil, 0, nil, false
}

// IsPkgConst reports whether e names the package-level constant pkgPath.name.
func IsPkgConst(info *types.Info, e ast.Expr, pkgPath, name string) bool {
	c := ConstObj(info, e)
	return c != nil && c.Pkg() != nil && c.Pkg().Path() == pkgPath && c.Name() == name
}

// IsBuiltin reports whether call invokes the named builtin.
func IsBuiltin(info *types.Info, call *ast.CallExpr, name string) bool {
	id, ok := Unparen(call.Fun).(*ast.Ident)
	if !ok {
		return false
	}
	b, ok := info.Uses[id].(*types.Builtin)
	return ok && b.Name() == name
}

package astx

import (
	"fmt"
	"go/ast"
	"go/constant"
	"go/token"
	"go/types"
	"sort"
)

// Env gives integer values to the non-constant leaves of a formula (variables,
// len(x), s[i], …) after type conversions and parentheses have been stripped.
// It also may fix the truth value of opaque boolean leaves.
type Env struct {
	Int  func(e ast.Expr) (int64, bool)
	Bool func(e ast.Expr) (bool, bool)
}

// StripConv removes type conversions and parentheses: int64(x) -> x.
func StripConv(info *types.Info, e ast.Expr) ast.Expr {
	for {
		e = Unparen(e)
		call, ok := e.(*ast.CallExpr)
		if !ok || len(call.Args) != 1 {
			return e
		}
		if tv, ok := info.Types[call.Fun]; ok && tv.IsType() {
			e = call.Args[0]
			continue
		}
		return e
	}
}

// EvalInt evaluates an integer expression made of constants, Env leaves, + and -.
func EvalInt(info *types.Info, e ast.Expr, env Env, consts map[int64]bool) (int64, error) {
	if tv, ok := info.Types[e]; ok && tv.Value != nil {
		c := constant.ToInt(tv.Value)
		if c.Kind() == constant.Int {
			if i, exact := constant.Int64Val(c); exact {
				if consts != nil {
					consts[i] = true
				}
				return i, nil
			}
		}
		return 0, fmt.Errorf("constant %s does not fit int64", tv.Value)
	}
	s := StripConv(info, e)
	if s != e {
		return EvalInt(info, s, env, consts)
	}
	if env.Int != nil {
		if v, ok := env.Int(s); ok {
			return v, nil
		}
	}
	if b, ok := s.(*ast.BinaryExpr); ok && (b.Op == token.ADD || b.Op == token.SUB) {
		l, err := EvalInt(info, b.X, env, consts)
		if err != nil {
			return 0, err
		}
		r, err := EvalInt(info, b.Y, env, consts)
		if err != nil {
			return 0, err
		}
		if b.Op == token.ADD {
			return l + r, nil
		}
		return l - r, nil
	}
	return 0, fmt.Errorf("operand %s is neither a known variable nor a constant", types.ExprString(e))
}

// EvalBool evaluates a boolean formula: &&, ||, !, comparisons of EvalInt operands, Env.Bool leaves.
func EvalBool(info *types.Info, e ast.Expr, env Env, consts map[int64]bool) (bool, error) {
	e = Unparen(e)
	if env.Bool != nil {
		if b, ok := env.Bool(e); ok {
			return b, nil
		}
	}
	if tv, ok := info.Types[e]; ok && tv.Value != nil && tv.Value.Kind() == constant.Bool {
		return constant.BoolVal(tv.Value), nil
	}
	switch x := e.(type) {
	case *ast.UnaryExpr:
		if x.Op == token.NOT {
			b, err := EvalBool(info, x.X, env, consts)
			return !b, err
		}
	case *ast.BinaryExpr:
		switch x.Op {
		case token.LAND, token.LOR:
			l, err := EvalBool(info, x.X, env, consts)
			if err != nil {
				return false, err
			}
			r, err := EvalBool(info, x.Y, env, consts)
			if err != nil {
				return false, err
			}
			if x.Op == token.LAND {
				return l && r, nil
			}
			return l || r, nil
		case token.EQL, token.NEQ, token.LSS, token.LEQ, token.GTR, token.GEQ:
			l, err := EvalInt(info, x.X, env, consts)
			if err != nil {
				return false, err
			}
			r, err := EvalInt(info, x.Y, env, consts)
			if err != nil {
				return false, err
			}
			switch x.Op {
			case token.EQL:
				return l == r, nil
			case token.NEQ:
				return l != r, nil
			case token.LSS:
				return l < r, nil
			case token.LEQ:
				return l <= r, nil
			case token.GTR:
				return l > r, nil
			default:
				return l >= r, nil
			}
		}
	}
	return false, fmt.Errorf("leaf %s is not decidable (not a comparison of known operands)", types.ExprString(e))
}

// Cond is one branch fact: Expr evaluated to Pol.
type Cond struct {
	Expr ast.Expr
	Pol  bool
}

// DNF is a disjunction (over paths) of conjunctions (the facts live on that path).
type DNF [][]Cond

// Eval decides the DNF under env. Facts for which keep returns false are ignored (treated as true).
func (d DNF) Eval(info *types.Info, env Env, keep func(Cond) bool, consts map[int64]bool) (bool, error) {
	for _, conj := range d {
		all := true
		for _, c := range conj {
			if keep != nil && !keep(c) {
				continue
			}
			b, err := EvalBool(info, c.Expr, env, consts)
			if err != nil {
				return false, err
			}
			if b != c.Pol {
				all = false
				break
			}
		}
		if all {
			return true, nil
		}
	}
	return false, nil
}

// PathConditions returns, for every path from the entry of body to target, the facts live there.
func PathConditions(info *types.Info, body *ast.BlockStmt, target ast.Node) (DNF, bool) {
	var out DNF
	_, trunc := ForEachPathTo(info, body, target, func(s *State) {
		var conj []Cond
		for _, f := range s.Facts {
			conj = append(conj, Cond{f.Expr, f.Pol})
		}
		out = append(out, conj)
	})
	return out, trunc
}

// Representatives returns the sorted class representatives induced by a set of constants on [lo,hi]:
// each constant, its two neighbours, and the ends.
func Representatives(consts map[int64]bool, lo, hi int64) []int64 {
	set := map[int64]bool{lo: true, hi: true}
	for c := range consts {
		for _, d := range []int64{-1, 0, 1} {
			if v := c + d; v >= lo && v <= hi {
				set[v] = true
			}
		}
	}
	var out []int64
	for v := range set {
		out = append(out, v)
	}
	sort.Slice(out, func(i, j int) bool { return out[i] < out[j] })
	return out
}

// IntervalsString renders [[0 31] [37 37]] as "0..31,37".
func IntervalsString(iv [][2]int64) string {
	s := ""
	for i, x := range iv {
		if i > 0 {
			s += ","
		}
		if x[0] == x[1] {
			s += fmt.Sprint(x[0])
		} else {
			s += fmt.Sprintf("%d..%d", x[0], x[1])
		}
	}
	if s == "" {
		return "∅"
	}
	return s
}

// SwitchCase is one clause of a switch statement.
type SwitchCase struct {
	Clause *ast.CaseClause
	Keys   []ast.Expr // nil for default
}

// SwitchCases lists the clauses of s.
func SwitchCases(s *ast.SwitchStmt) (cases []SwitchCase, def *ast.CaseClause) {
	for _, st := range s.Body.List {
		cc := st.(*ast.CaseClause)
		if cc.List == nil {
			def = cc
			continue
		}
		cases = append(cases, SwitchCase{Clause: cc, Keys: cc.List})
	}
	return cases, def
}

// FindSwitches returns the switch statements in body (any depth, not in FuncLits).
func FindSwitches(body ast.Node) []*ast.SwitchStmt {
	var out []*ast.SwitchStmt
	ast.Inspect(body, func(n ast.Node) bool {
		switch x := n.(type) {
		case *ast.FuncLit:
			return false
		case *ast.SwitchStmt:
			// `L: switch { default: … }` is how an inlined helper body is represented, not a switch of the source
			if x.Tag == nil && x.Init == nil && len(x.Body.List) == 1 {
				if cc, ok := x.Body.List[0].(*ast.CaseClause); ok && cc.List == nil {
					return true
				}
			}
			out = append(out, x)
		}
		return true
	})
	return out
}

// Returns lists all return statements in body (not in FuncLits).
func Returns(body ast.Node) []*ast.ReturnStmt {
	var out []*ast.ReturnStmt
	ast.Inspect(body, func(n ast.Node) bool {
		switch x := n.(type) {
		case *ast.FuncLit:
			return false
		case *ast.ReturnStmt:
			out = append(out, x)
		}
		return true
	})
	return out
}

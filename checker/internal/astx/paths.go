package astx

import (
	"go/ast"
	"go/token"
	"go/types"
	"strings"

	"golang.org/x/tools/go/cfg"
)

// Fact is a branch condition known to be true (Pol) or false (!Pol) on the current path.
type Fact struct {
	Expr ast.Expr // leaf condition as written (go/cfg has already split &&, || and !)
	Pol  bool
	At   int    // number of steps executed when the condition was assumed (set for State.Taken)
	key  string // canonical key (== form, variable identity)
	cpol bool   // polarity of the canonical form
	// for `x == <constant>` facts: the variable and the constant's exact value
	eqVar   types.Object
	eqConst string
	vars    map[types.Object]bool
}

// State is the analysis state along one path.
type State struct {
	Steps  []ast.Node // block-level nodes executed so far, in order
	Facts  []Fact     // live facts, oldest first
	Taken  []Fact     // every branch condition assumed on this path, including those killed by later assignments
	Defers []*ast.DeferStmt
	visits []int8
	// boolDefs: boolean locals defined by a side-effect-free condition that is still valid (none of its
	// variables assigned since): assuming the local assumes the condition
	boolDefs map[types.Object]ast.Expr
}

func (s *State) clone() *State {
	c := &State{}
	c.Steps = append(make([]ast.Node, 0, len(s.Steps)+8), s.Steps...)
	c.Facts = append(make([]Fact, 0, len(s.Facts)+4), s.Facts...)
	c.Taken = append(make([]Fact, 0, len(s.Taken)+4), s.Taken...)
	c.Defers = append([]*ast.DeferStmt(nil), s.Defers...)
	c.visits = append([]int8(nil), s.visits...)
	if len(s.boolDefs) > 0 {
		c.boolDefs = make(map[types.Object]ast.Expr, len(s.boolDefs))
		for k, v := range s.boolDefs {
			c.boolDefs[k] = v
		}
	}
	return c
}

// TookBranch reports whether the path went through a branch whose condition satisfies pred,
// whether or not the variables of the condition were assigned afterwards.
func (s *State) TookBranch(pred func(e ast.Expr, pol bool) bool) bool {
	for _, f := range s.Taken {
		if pred(f.Expr, f.Pol) {
			return true
		}
	}
	return false
}

// HasFact reports whether some live fact satisfies pred.
func (s *State) HasFact(pred func(e ast.Expr, pol bool) bool) bool {
	for _, f := range s.Facts {
		if pred(f.Expr, f.Pol) {
			return true
		}
	}
	return false
}

// AnyStep reports whether some executed node satisfies pred.
func (s *State) AnyStep(pred func(n ast.Node) bool) bool {
	for _, n := range s.Steps {
		if pred(n) {
			return true
		}
	}
	return false
}

// CountCalls counts executed calls (outside function literals) satisfying pred.
func (s *State) CountCalls(pred func(call *ast.CallExpr) bool) int {
	n := 0
	for _, st := range s.Steps {
		if _, isDefer := st.(*ast.DeferStmt); isDefer {
			continue
		}
		for _, c := range Calls(st) {
			if pred(c) {
				n++
			}
		}
	}
	return n
}

// DeferredCalls counts deferred calls (the call of a defer statement, or calls inside a
// deferred function literal) satisfying pred.
func (s *State) DeferredCalls(pred func(call *ast.CallExpr) bool) int {
	n := 0
	for _, d := range s.Defers {
		if pred(d.Call) {
			n++
		}
		if lit, ok := d.Call.Fun.(*ast.FuncLit); ok {
			for _, c := range CallsDeep(lit.Body) {
				if pred(c) {
					n++
				}
			}
		}
	}
	return n
}

// ExitKind classifies how a path leaves the function.
type ExitKind int

const (
	ExitReturn   ExitKind = iota // explicit return statement
	ExitFallOff                  // end of body
	ExitNoReturn                 // panic / os.Exit
)

// Walker enumerates the paths of one function body.
type Walker struct {
	Info      *types.Info
	G         *cfg.CFG
	MaxVisits int // visits of one block per path (2 = each loop body at most once more)
	MaxPaths  int
	Paths     int
	Truncated bool
	// OnNode is called before n executes; returning true cuts the path here.
	OnNode func(s *State, n ast.Node) bool
	// OnExit is called at the end of every complete path.
	OnExit func(s *State, kind ExitKind, ret *ast.ReturnStmt)

	rangeVars map[ast.Node]bool
	switchOf  map[ast.Stmt]*ast.SwitchStmt // case clause -> its switch
}

// NoReturn is the mayReturn callback for cfg.New.
func NoReturn(info *types.Info) func(call *ast.CallExpr) bool {
	return func(call *ast.CallExpr) bool {
		switch obj := Callee(info, call).(type) {
		case *types.Builtin:
			return obj.Name() != "panic"
		case *types.Func:
			if obj.Pkg() != nil {
				q := obj.Pkg().Path() + "." + obj.Name()
				if q == "os.Exit" || q == "log.Fatal" || q == "log.Fatalf" || q == "log.Panic" || q == "runtime.Goexit" {
					return false
				}
			}
		}
		return true
	}
}

// DefaultMaxVisits is the per-path visit bound of a block (quick: 2 = every loop body at most once
// more; thorough: 3 = paths that run a loop body twice are enumerated too).
var DefaultMaxVisits = 2

// NewWalker builds the CFG of body.
func NewWalker(info *types.Info, body *ast.BlockStmt) *Walker {
	w := &Walker{Info: info, MaxVisits: DefaultMaxVisits, MaxPaths: 200000, rangeVars: map[ast.Node]bool{}, switchOf: map[ast.Stmt]*ast.SwitchStmt{}}
	w.G = cfg.New(body, NoReturn(info))
	ast.Inspect(body, func(n ast.Node) bool {
		if sw, ok := n.(*ast.SwitchStmt); ok {
			for _, cl := range sw.Body.List {
				w.switchOf[cl] = sw
			}
		}
		if r, ok := n.(*ast.RangeStmt); ok {
			if r.Key != nil {
				w.rangeVars[r.Key] = true
			}
			if r.Value != nil {
				w.rangeVars[r.Value] = true
			}
		}
		return true
	})
	return w
}

// Walk enumerates paths from the entry block.
func (w *Walker) Walk() {
	if len(w.G.Blocks) == 0 {
		return
	}
	st := &State{visits: make([]int8, len(w.G.Blocks))}
	w.walk(w.G.Blocks[0], st)
}

func (w *Walker) walk(b *cfg.Block, st *State) {
	if w.Truncated {
		return
	}
	if int(st.visits[b.Index]) >= w.MaxVisits {
		return
	}
	st.visits[b.Index]++
	for _, n := range b.Nodes {
		if w.OnNode != nil && w.OnNode(st, n) {
			return
		}
		w.apply(st, n)
	}
	switch len(b.Succs) {
	case 0:
		w.Paths++
		if w.Paths > w.MaxPaths {
			w.Truncated = true
			return
		}
		if w.OnExit != nil {
			kind, ret := ExitFallOff, (*ast.ReturnStmt)(nil)
			if len(b.Nodes) > 0 {
				switch last := b.Nodes[len(b.Nodes)-1].(type) {
				case *ast.ReturnStmt:
					kind, ret = ExitReturn, last
				case *ast.ExprStmt:
					if call, ok := last.X.(*ast.CallExpr); ok && !NoReturn(w.Info)(call) {
						kind = ExitNoReturn
					}
				}
			}
			w.OnExit(st, kind, ret)
		}
	case 1:
		w.walk(b.Succs[0], st)
	default:
		var cond ast.Expr
		if len(b.Succs) == 2 && len(b.Nodes) > 0 {
			cond, _ = b.Nodes[len(b.Nodes)-1].(ast.Expr)
			if cond != nil && w.rangeVars[cond] {
				cond = nil
			}
			if cond != nil && b.Succs[1].Kind == cfg.KindSwitchNextCase {
				// go/cfg adds only the case expression; rebuild `tag == expr` for tagged switches.
				if sw := w.switchOf[b.Succs[1].Stmt]; sw != nil && sw.Tag != nil {
					cond = &ast.BinaryExpr{X: sw.Tag, Op: token.EQL, Y: cond}
				} else if sw == nil {
					cond = nil
				}
			}
		}
		for i, succ := range b.Succs {
			if cond == nil {
				w.walk(succ, st.clone())
				continue
			}
			for _, st2 := range w.expand(st.clone(), cond, i == 0) {
				w.walk(succ, st2)
			}
		}
	}
}

// expand assumes e == pol on st, splitting short-circuit operators into the
// alternatives a short-circuit CFG would have; infeasible alternatives are dropped.
func (w *Walker) expand(st *State, e ast.Expr, pol bool) []*State {
	e = Unparen(e)
	switch x := e.(type) {
	case *ast.UnaryExpr:
		if x.Op == token.NOT {
			return w.expand(st, x.X, !pol)
		}
	case *ast.BinaryExpr:
		if x.Op == token.LAND || x.Op == token.LOR {
			// (a && b) true  = a true, b true          (a || b) false = a false, b false
			// (a && b) false = a false | a true,b false (a || b) true  = a true | a false,b true
			both := (x.Op == token.LAND) == pol
			if both {
				var out []*State
				for _, s1 := range w.expand(st, x.X, pol) {
					out = append(out, w.expand(s1, x.Y, pol)...)
				}
				return out
			}
			out := w.expand(st.clone(), x.X, pol)
			for _, s1 := range w.expand(st.clone(), x.X, !pol) {
				out = append(out, w.expand(s1, x.Y, pol)...)
			}
			return out
		}
	}
	if w.assume(st, e, pol) {
		st.Taken = append(st.Taken, Fact{Expr: e, Pol: pol, At: len(st.Steps)})
		w.okImplies(st, e, pol)
		// a flag defined as `flag := a && b …` stands for its condition
		if id, isID := e.(*ast.Ident); isID {
			if def, ok := st.boolDefs[ObjOf(w.Info, id)]; ok && def != nil {
				return w.expand(st, def, pol)
			}
		}
		return []*State{st}
	}
	return nil
}

// okImplies encodes the repository's comma-ok idiom for errors: after `v, ok := asError(err)`
// (errors.As into a *Error), ok == true means v is non-nil.
func (w *Walker) okImplies(st *State, e ast.Expr, pol bool) {
	id, isID := Unparen(e).(*ast.Ident)
	if !isID || !pol {
		return
	}
	obj := ObjOf(w.Info, id)
	if obj == nil {
		return
	}
	for i := len(st.Steps) - 1; i >= 0; i-- {
		as, ok := st.Steps[i].(*ast.AssignStmt)
		if !ok || len(as.Lhs) != 2 || len(as.Rhs) != 1 || ObjOf(w.Info, as.Lhs[1]) != obj {
			continue
		}
		call, ok := as.Rhs[0].(*ast.CallExpr)
		if !ok {
			return
		}
		if f, ok := Callee(w.Info, call).(*types.Func); ok && f.Name() == "asError" {
			if v, ok := Unparen(as.Lhs[0]).(*ast.Ident); ok && v.Name != "_" {
				n := &ast.Ident{Name: "nil", NamePos: v.Pos()}
				w.Info.Uses[n] = types.Universe.Lookup("nil")
				w.assume(st, &ast.BinaryExpr{X: v, Op: token.EQL, OpPos: v.Pos(), Y: n}, false)
			}
		}
		return
	}
}

// assume adds a fact; false if it contradicts a live one.
func (w *Walker) assume(st *State, e ast.Expr, pol bool) bool {
	f := Fact{Expr: e, Pol: pol, vars: VarsIn(w.Info, e)}
	f.key, f.cpol = canonical(w.Info, e, pol)
	if b, ok := Unparen(e).(*ast.BinaryExpr); ok && (b.Op == token.EQL || b.Op == token.NEQ) {
		x, y := b.X, b.Y
		if tv, isC := w.Info.Types[x]; isC && tv.Value != nil {
			x, y = y, x
		}
		if tv, isC := w.Info.Types[y]; isC && tv.Value != nil {
			if v, isVar := ObjOf(w.Info, Unparen(x)).(*types.Var); isVar && !v.IsField() {
				f.eqVar, f.eqConst = v, tv.Value.ExactString()
			}
		}
	}
	for _, g := range st.Facts {
		if g.key == f.key {
			if g.cpol != f.cpol {
				return false
			}
			return true // already known
		}
		// x == c1 known true: x == c2 (c2 != c1) cannot also be true
		if f.eqVar != nil && g.eqVar == f.eqVar && g.cpol && f.cpol && g.eqConst != f.eqConst {
			return false
		}
	}
	st.Facts = append(st.Facts, f)
	return true
}

func canonical(info *types.Info, e ast.Expr, pol bool) (string, bool) {
	e = Unparen(e)
	if b, ok := e.(*ast.BinaryExpr); ok && b.Op == token.NEQ {
		eq := &ast.BinaryExpr{X: b.X, Op: token.EQL, Y: b.Y}
		return CanonKey(info, eq), !pol
	}
	return CanonKey(info, e), pol
}

func (w *Walker) apply(st *State, n ast.Node) {
	st.Steps = append(st.Steps, n)
	switch x := n.(type) {
	case *ast.DeferStmt:
		st.Defers = append(st.Defers, x)
	case *ast.AssignStmt:
		for _, lhs := range x.Lhs {
			w.kill(st, lhs)
		}
		if len(x.Lhs) == len(x.Rhs) && (x.Tok == token.ASSIGN || x.Tok == token.DEFINE) {
			for i, lhs := range x.Lhs {
				w.learn(st, lhs, x.Rhs[i])
			}
		}
	case *ast.IncDecStmt:
		w.kill(st, x.X)
	case *ast.DeclStmt:
		if gd, ok := x.Decl.(*ast.GenDecl); ok {
			for _, spec := range gd.Specs {
				if vs, ok := spec.(*ast.ValueSpec); ok {
					for _, name := range vs.Names {
						w.kill(st, name)
					}
					if len(vs.Names) == len(vs.Values) {
						for i, name := range vs.Names {
							w.learn(st, name, vs.Values[i])
						}
					}
				}
			}
		}
	case ast.Expr:
		if w.rangeVars[n] {
			w.kill(st, x)
		}
	}
}

// learn records what an assignment `lhs = rhs` to a local variable establishes: nilness for a nil
// literal or a value that is never nil (fresh allocation, error constructor), truth for a boolean
// literal. Later branches that contradict it are infeasible (a helper inlined as
// `err = nil; break` followed by `if err != nil` needs this).
func (w *Walker) learn(st *State, lhs, rhs ast.Expr) {
	id, ok := Unparen(lhs).(*ast.Ident)
	if !ok || id.Name == "_" {
		return
	}
	v, _ := ObjOf(w.Info, id).(*types.Var)
	if v == nil || v.IsField() || v.Pkg() == nil || v.Parent() == v.Pkg().Scope() {
		return
	}
	rhs = Unparen(rhs)
	if VarsIn(w.Info, rhs)[v] {
		return
	}
	if bt, isBasic := v.Type().Underlying().(*types.Basic); isBasic && bt.Kind() == types.Bool && pureCondition(w.Info, rhs) {
		if tv, isC := w.Info.Types[rhs]; !isC || tv.Value == nil {
			if st.boolDefs == nil {
				st.boolDefs = map[types.Object]ast.Expr{}
			}
			st.boolDefs[v] = rhs
		}
	}
	nilID := func() *ast.Ident {
		n := &ast.Ident{Name: "nil", NamePos: rhs.Pos()}
		w.Info.Uses[n] = types.Universe.Lookup("nil")
		return n
	}
	switch {
	case IsNil(w.Info, rhs):
		w.assume(st, &ast.BinaryExpr{X: id, Op: token.EQL, OpPos: rhs.Pos(), Y: nilID()}, true)
	case NeverNil(w.Info, rhs):
		w.assume(st, &ast.BinaryExpr{X: id, Op: token.EQL, OpPos: rhs.Pos(), Y: nilID()}, false)
	default:
		if b, isB := ObjOf(w.Info, rhs).(*types.Const); isB && b.Parent() == types.Universe && (b.Name() == "true" || b.Name() == "false") {
			w.assume(st, id, b.Name() == "true")
			return
		}
		// x = <constant>: x == constant holds (a kind chosen into a local and switched on later)
		if tv, isC := w.Info.Types[rhs]; isC && tv.Value != nil {
			if bt, isBasic := v.Type().Underlying().(*types.Basic); isBasic && bt.Info()&(types.IsInteger|types.IsString) != 0 {
				eq := &ast.BinaryExpr{X: id, Op: token.EQL, OpPos: rhs.Pos(), Y: rhs}
				w.Info.Types[eq] = types.TypeAndValue{Type: types.Typ[types.Bool]}
				w.assume(st, eq, true)
				return
			}
		}
		// x = wrapIf…(y) with y known non-nil: x is non-nil
		if call, isCall := rhs.(*ast.CallExpr); isCall && NilPreserving != nil {
			if f, ok := Callee(w.Info, call).(*types.Func); ok && NilPreserving(f) {
				for _, a := range call.Args {
					aid, isID := Unparen(a).(*ast.Ident)
					if !isID {
						continue
					}
					nilKey, _ := canonical(w.Info, &ast.BinaryExpr{X: aid, Op: token.EQL, Y: nilID()}, true)
					for _, g := range st.Facts {
						if g.key == nilKey && !g.cpol {
							w.assume(st, &ast.BinaryExpr{X: id, Op: token.EQL, OpPos: rhs.Pos(), Y: nilID()}, false)
							return
						}
					}
				}
			}
		}
		// a plain copy `x = y` inherits what is known about y's nilness / truth
		if rid, isID := rhs.(*ast.Ident); isID {
			if _, isVar := ObjOf(w.Info, rid).(*types.Var); isVar {
				nilKey, _ := canonical(w.Info, &ast.BinaryExpr{X: rid, Op: token.EQL, Y: nilID()}, true)
				boolKey, _ := canonical(w.Info, rid, true)
				for _, g := range st.Facts {
					switch g.key {
					case nilKey:
						w.assume(st, &ast.BinaryExpr{X: id, Op: token.EQL, OpPos: rhs.Pos(), Y: nilID()}, g.cpol)
						return
					case boolKey:
						w.assume(st, id, g.cpol)
						return
					}
				}
			}
		}
	}
}

// NilPreserving is installed by the loader: it reports whether a first-party function returns nil
// only for a nil argument (see core/nilpreserving.go).
var NilPreserving func(f *types.Func) bool

// NeverNil recognises expressions whose value cannot be nil.
func NeverNil(info *types.Info, e ast.Expr) bool {
	switch x := e.(type) {
	case *ast.UnaryExpr:
		_, isLit := Unparen(x.X).(*ast.CompositeLit)
		return x.Op == token.AND && isLit
	case *ast.FuncLit:
		return true
	case *ast.CallExpr:
		switch obj := Callee(info, x).(type) {
		case *types.Builtin:
			return obj.Name() == "new" || obj.Name() == "make"
		case *types.Func:
			if obj.Pkg() == nil {
				return false
			}
			switch obj.Pkg().Path() + "." + obj.Name() {
			case "errors.New", "fmt.Errorf":
				return true
			}
			if sig, ok := obj.Type().(*types.Signature); ok && sig.Recv() == nil && (obj.Name() == "errorf" || obj.Name() == "NewError") {
				return true
			}
		}
	}
	return false
}

func (w *Walker) kill(st *State, lhs ast.Expr) {
	lhs = Unparen(lhs)
	var root *ast.Ident
	bare := false
	switch x := lhs.(type) {
	case *ast.Ident:
		root, bare = x, true
	case *ast.StarExpr:
		if id, ok := Unparen(x.X).(*ast.Ident); ok {
			root, bare = id, true
		}
	default:
		e := lhs
		for {
			switch y := e.(type) {
			case *ast.SelectorExpr:
				e = y.X
				continue
			case *ast.IndexExpr:
				e = y.X
				continue
			case *ast.ParenExpr:
				e = y.X
				continue
			case *ast.StarExpr:
				e = y.X
				continue
			}
			break
		}
		root, _ = e.(*ast.Ident)
	}
	if root == nil || root.Name == "_" {
		return
	}
	obj := w.Info.Uses[root]
	if obj == nil {
		obj = w.Info.Defs[root]
	}
	if obj == nil {
		return
	}
	lhsKey := ""
	if !bare {
		lhsKey = CanonKey(w.Info, lhs)
	}
	kept := st.Facts[:0:0]
	for _, f := range st.Facts {
		if f.vars[obj] && (bare || strings.Contains(f.key, lhsKey)) {
			continue
		}
		kept = append(kept, f)
	}
	st.Facts = kept
	for flag, def := range st.boolDefs {
		if flag == obj || VarsIn(w.Info, def)[obj] {
			delete(st.boolDefs, flag)
		}
	}
}

// pureCondition: comparisons, &&, ||, !, operands, field reads, len/cap and errors.Is - nothing that could
// have an effect or whose value could change without an assignment the walker sees.
func pureCondition(info *types.Info, e ast.Expr) bool {
	ok := true
	ast.Inspect(e, func(n ast.Node) bool {
		switch x := n.(type) {
		case *ast.CallExpr:
			if IsBuiltin(info, x, "len") || IsBuiltin(info, x, "cap") {
				return true
			}
			if _, _, isIs := IsErrorsIs(info, x); isIs {
				return true
			}
			if tv, isT := info.Types[x.Fun]; isT && tv.IsType() {
				return true // conversion
			}
			ok = false
			return false
		case *ast.FuncLit, *ast.UnaryExpr:
			if u, isU := n.(*ast.UnaryExpr); isU && (u.Op == token.ARROW || u.Op == token.AND) {
				ok = false
			}
			if _, isLit := n.(*ast.FuncLit); isLit {
				ok = false
			}
		}
		return ok
	})
	return ok
}

// Contains reports whether inner is a node of outer's subtree (by identity, not by source
// position: inlined helper bodies keep the positions of the helper).
func Contains(outer, inner ast.Node) bool {
	if outer == nil || inner == nil {
		return false
	}
	if outer == inner {
		return true
	}
	found := false
	ast.Inspect(outer, func(n ast.Node) bool {
		if found {
			return false
		}
		if n == inner {
			found = true
			return false
		}
		return true
	})
	return found
}

// ForEachPathTo calls visit with the state of every path that reaches target
// (a node inside the body, outside nested function literals), just before it executes.
// It returns the number of such paths and whether the enumeration was truncated.
func ForEachPathTo(info *types.Info, body *ast.BlockStmt, target ast.Node, visit func(s *State)) (int, bool) {
	w := NewWalker(info, body)
	n := 0
	w.OnNode = func(s *State, node ast.Node) bool {
		if Contains(node, target) {
			n++
			visit(s)
			return true
		}
		return false
	}
	w.Walk()
	return n, w.Truncated
}

// ForEachExit calls visit at the end of every complete path through body.
func ForEachExit(info *types.Info, body *ast.BlockStmt, visit func(s *State, kind ExitKind, ret *ast.ReturnStmt)) (int, bool) {
	w := NewWalker(info, body)
	w.OnExit = visit
	w.Walk()
	return w.Paths, w.Truncated
}

// LastAssigned returns the expression most recently assigned to obj along this path
// (simple and parallel assignments, var declarations with values), or nil.
func (s *State) LastAssigned(info *types.Info, obj types.Object) ast.Expr {
	for i := len(s.Steps) - 1; i >= 0; i-- {
		switch x := s.Steps[i].(type) {
		case *ast.AssignStmt:
			if len(x.Lhs) == len(x.Rhs) {
				for j, l := range x.Lhs {
					if ObjOf(info, l) == obj {
						return x.Rhs[j]
					}
				}
			} else {
				for _, l := range x.Lhs {
					if ObjOf(info, l) == obj {
						return nil // multi-value call result
					}
				}
			}
		case *ast.DeclStmt:
			if gd, ok := x.Decl.(*ast.GenDecl); ok {
				for _, spec := range gd.Specs {
					if vs, ok := spec.(*ast.ValueSpec); ok {
						for j, name := range vs.Names {
							if info.Defs[name] == obj {
								if j < len(vs.Values) {
									return vs.Values[j]
								}
								return nil
							}
						}
					}
				}
			}
		}
	}
	return nil
}

// ConstStringOnPath evaluates e to a string constant, following variables to their last
// assignment on this path and folding + of resolvable operands. Unresolvable parts are
// reported through the callback `unknown` (e.g. a loop variable) and contribute "".
func (s *State) ConstStringOnPath(info *types.Info, e ast.Expr, unknown func(ast.Expr)) (string, bool) {
	e = Unparen(e)
	if v, ok := ConstString(info, e); ok {
		return v, true
	}
	switch x := e.(type) {
	case *ast.BinaryExpr:
		if x.Op == token.ADD {
			l, lok := s.ConstStringOnPath(info, x.X, unknown)
			r, rok := s.ConstStringOnPath(info, x.Y, unknown)
			return l + r, lok && rok
		}
	case *ast.Ident:
		if obj := ObjOf(info, x); obj != nil {
			if rhs := s.LastAssigned(info, obj); rhs != nil {
				return s.ConstStringOnPath(info, rhs, unknown)
			}
		}
	}
	if unknown != nil {
		unknown(e)
	}
	return "", false
}

// ConstObjOnPath resolves e to a named constant, following variables to their last assignment on
// this path (a header name chosen into a local by a branch or an inlined helper).
func (s *State) ConstObjOnPath(info *types.Info, e ast.Expr) *types.Const {
	for depth := 0; depth < 4; depth++ {
		e = Unparen(e)
		if c := ConstObj(info, e); c != nil {
			return c
		}
		obj := ObjOf(info, e)
		if obj == nil {
			return nil
		}
		rhs := s.LastAssigned(info, obj)
		if rhs == nil {
			return nil
		}
		e = rhs
	}
	return nil
}

// Precedes reports whether a comes before b in root's source order as analysed (pre-order position in
// the tree, not token positions: an inlined body keeps the positions of the helper it came from).
func Precedes(root, a, b ast.Node) bool {
	ia, ib, i := -1, -1, 0
	ast.Inspect(root, func(n ast.Node) bool {
		if n == nil {
			return false
		}
		if n == a && ia < 0 {
			ia = i
		}
		if n == b && ib < 0 {
			ib = i
		}
		i++
		return ia < 0 || ib < 0
	})
	return ia >= 0 && ib >= 0 && ia < ib
}

// Demonstrations of the genuine defects F1..F8 recorded in /verif/known_findings.json.
// Not part of any registered check (the checks are static); used once per fix:
// copy into a scratch worktree of /repo, `go test -run TestFinding ./...`
// fails before the corresponding "fix:" commit and passes after it.
package connect_test

import (
	"bytes"
	"context"
	"encoding/binary"
	"errors"
	"io"
	"net/http"
	"net/http/httptest"
	"strings"
	"testing"
	"testing/iotest"

	connect "github.com/bufbuild/connect-go"
	pingv1 "github.com/bufbuild/connect-go/internal/gen/connect/ping/v1"
	"github.com/bufbuild/connect-go/internal/gen/connect/ping/v1/pingv1connect"
	"google.golang.org/protobuf/proto"
)

type findingSumServer struct {
	pingv1connect.UnimplementedPingServiceHandler
}

func (findingSumServer) Sum(_ context.Context, stream *connect.ClientStream[pingv1.SumRequest]) (*connect.Response[pingv1.SumResponse], error) {
	var sum int64
	for stream.Receive() {
		sum += stream.Msg().Number
	}
	if stream.Err() != nil {
		return nil, stream.Err()
	}
	return connect.NewResponse(&pingv1.SumResponse{Sum: sum}), nil
}

func (findingSumServer) CountUp(_ context.Context, req *connect.Request[pingv1.CountUpRequest], stream *connect.ServerStream[pingv1.CountUpResponse]) error {
	for _, n := range []int64{7, 0, 0, 3} {
		if err := stream.Send(&pingv1.CountUpResponse{Number: n}); err != nil {
			return err
		}
	}
	return nil
}

// F1 (C01): zero-valued message after a non-zero one.
func TestFindingF1ZeroAfterNonZero(t *testing.T) {
	mux := http.NewServeMux()
	mux.Handle(pingv1connect.NewPingServiceHandler(findingSumServer{}))
	server := httptest.NewServer(mux)
	defer server.Close()
	client := pingv1connect.NewPingServiceClient(server.Client(), server.URL)
	stream := client.Sum(context.Background())
	for _, n := range []int64{7, 0, 0, 3} {
		if err := stream.Send(&pingv1.SumRequest{Number: n}); err != nil {
			t.Fatal(err)
		}
	}
	res, err := stream.CloseAndReceive()
	if err != nil {
		t.Fatal(err)
	}
	if res.Msg.Sum != 10 {
		t.Errorf("handler side: sum = %d, want 10", res.Msg.Sum)
	}
	ss, err := client.CountUp(context.Background(), connect.NewRequest(&pingv1.CountUpRequest{Number: 1}))
	if err != nil {
		t.Fatal(err)
	}
	var got []int64
	for ss.Receive() {
		got = append(got, ss.Msg().Number)
	}
	if ss.Err() != nil {
		t.Fatal(ss.Err())
	}
	want := []int64{7, 0, 0, 3}
	if len(got) != len(want) {
		t.Fatalf("client side: got %v want %v", got, want)
	}
	for i := range want {
		if got[i] != want[i] {
			t.Errorf("client side: got %v want %v", got, want)
			break
		}
	}
}

type fakeHTTPClient func(*http.Request) (*http.Response, error)

func (f fakeHTTPClient) Do(r *http.Request) (*http.Response, error) {
	go func() { _, _ = io.Copy(io.Discard, r.Body) }()
	return f(r)
}

func cannedResponse(status int, header http.Header, body io.Reader, trailer http.Header) fakeHTTPClient {
	return func(r *http.Request) (*http.Response, error) {
		return &http.Response{
			Status:     http.StatusText(status),
			StatusCode: status,
			Proto:      "HTTP/2.0",
			ProtoMajor: 2,
			Header:     header,
			Body:       io.NopCloser(body),
			Trailer:    trailer,
			Request:    r,
		}, nil
	}
}

func envelopeBytes(flags byte, payload []byte) []byte {
	out := make([]byte, 5+len(payload))
	out[0] = flags
	binary.BigEndian.PutUint32(out[1:5], uint32(len(payload)))
	copy(out[5:], payload)
	return out
}

type oneByteReader struct{ r io.Reader }

func (o oneByteReader) Read(p []byte) (int, error) {
	if len(p) == 0 {
		return 0, nil
	}
	return o.r.Read(p[:1])
}

// F2 (C03): a body delivered one byte at a time decodes like the whole body.
func TestFindingF2ByteAtATime(t *testing.T) {
	msg, _ := proto.Marshal(&pingv1.CountUpResponse{Number: 42})
	body := append(envelopeBytes(0, msg), envelopeBytes(2, []byte("{}"))...)
	header := http.Header{"Content-Type": []string{"application/connect+proto"}}
	client := pingv1connect.NewPingServiceClient(
		cannedResponse(200, header, oneByteReader{bytes.NewReader(body)}, nil), "http://example.com")
	ss, err := client.CountUp(context.Background(), connect.NewRequest(&pingv1.CountUpRequest{Number: 1}))
	if err != nil {
		t.Fatal(err)
	}
	var got []int64
	for ss.Receive() {
		got = append(got, ss.Msg().Number)
	}
	if ss.Err() != nil {
		t.Fatalf("one-byte reads: %v", ss.Err())
	}
	if len(got) != 1 || got[0] != 42 {
		t.Fatalf("got %v", got)
	}
}

// F2 (C04): a request body cut inside a prefix must not look like a clean end
// of the request stream to the handler.
func TestFindingF2PartialPrefixIsNotCleanEOF(t *testing.T) {
	var handlerErr error
	var received int
	handler := connect.NewClientStreamHandler(
		"/connect.ping.v1.PingService/Sum",
		func(_ context.Context, stream *connect.ClientStream[pingv1.SumRequest]) (*connect.Response[pingv1.SumResponse], error) {
			for stream.Receive() {
				received++
			}
			handlerErr = stream.Err()
			return connect.NewResponse(&pingv1.SumResponse{}), nil
		},
	)
	msg, _ := proto.Marshal(&pingv1.SumRequest{Number: 7})
	body := append(envelopeBytes(0, msg), 0, 0, 0)
	request := httptest.NewRequest(http.MethodPost, "/connect.ping.v1.PingService/Sum", iotest.DataErrReader(bytes.NewReader(body)))
	request.Header.Set("Content-Type", "application/grpc+proto")
	request.ProtoMajor = 2
	handler.ServeHTTP(httptest.NewRecorder(), request)
	if received != 1 {
		t.Fatalf("received %d messages", received)
	}
	if handlerErr == nil {
		t.Fatalf("request cut inside an envelope prefix looked like a clean end of stream to the handler")
	}
}

// F3 (C04): a Connect stream without end-of-stream envelope is not a success.
func TestFindingF3ConnectStreamWithoutEndStream(t *testing.T) {
	msg, _ := proto.Marshal(&pingv1.CountUpResponse{Number: 42})
	header := http.Header{"Content-Type": []string{"application/connect+proto"}}
	client := pingv1connect.NewPingServiceClient(
		cannedResponse(200, header, bytes.NewReader(envelopeBytes(0, msg)), nil), "http://example.com")
	ss, err := client.CountUp(context.Background(), connect.NewRequest(&pingv1.CountUpRequest{Number: 1}))
	if err != nil {
		t.Fatal(err)
	}
	for ss.Receive() {
	}
	if ss.Err() == nil {
		t.Fatalf("stream cut before its end-of-stream envelope ended cleanly")
	}
	if connect.CodeOf(ss.Err()) == 0 {
		t.Fatalf("zero code")
	}
}

// F4 (C06): no client error may carry the zero code.
func TestFindingF4ZeroCode(t *testing.T) {
	ping := func(c fakeHTTPClient, opts ...connect.ClientOption) error {
		client := pingv1connect.NewPingServiceClient(c, "http://example.com", opts...)
		_, err := client.Ping(context.Background(), connect.NewRequest(&pingv1.PingRequest{}))
		return err
	}
	check := func(name string, err error, want connect.Code) {
		t.Helper()
		if err == nil {
			t.Errorf("%s: no error", name)
			return
		}
		if got := connect.CodeOf(err); got != want {
			t.Errorf("%s: code = %v (%d), want %v; err = %v", name, got, got, want, err)
		}
	}
	jsonHeader := http.Header{"Content-Type": []string{"application/json"}}
	check("403 without code", ping(cannedResponse(403, jsonHeader, strings.NewReader(`{"message":"Forbidden"}`), nil)), connect.CodePermissionDenied)
	check("403 with code_0", ping(cannedResponse(403, jsonHeader, strings.NewReader(`{"code":"code_0","message":"x"}`), nil)), connect.CodePermissionDenied)
	grpcHeader := http.Header{"Content-Type": []string{"application/grpc+proto"}}
	// Grpc-Status 00 is numerically OK: with an empty body the unary call must then fail for lack of a message, with a non-zero code.
	err := ping(cannedResponse(200, grpcHeader, strings.NewReader(""), http.Header{"Grpc-Status": []string{"00"}}), connect.WithGRPC())
	if err == nil || connect.CodeOf(err) == 0 {
		t.Errorf("grpc-status 00: err = %v code = %d", err, connect.CodeOf(err))
	}
	// end-stream error without code
	msg, _ := proto.Marshal(&pingv1.CountUpResponse{Number: 42})
	body := append(envelopeBytes(0, msg), envelopeBytes(2, []byte(`{"error":{"message":"boom"}}`))...)
	client := pingv1connect.NewPingServiceClient(
		cannedResponse(200, http.Header{"Content-Type": []string{"application/connect+proto"}}, bytes.NewReader(body), nil), "http://example.com")
	ss, err := client.CountUp(context.Background(), connect.NewRequest(&pingv1.CountUpRequest{Number: 1}))
	if err != nil {
		t.Fatal(err)
	}
	for ss.Receive() {
	}
	if ss.Err() == nil || connect.CodeOf(ss.Err()) == 0 {
		t.Errorf("end-stream error without code: err = %v code = %d", ss.Err(), connect.CodeOf(ss.Err()))
	}
}

// F5 (C06/C11): end-stream metadata keys are looked up case-insensitively.
func TestFindingF5EndStreamMetadataCase(t *testing.T) {
	msg, _ := proto.Marshal(&pingv1.CountUpResponse{Number: 42})
	body := append(envelopeBytes(0, msg), envelopeBytes(2, []byte(`{"metadata":{"x-k":["v1","v2"]}}`))...)
	client := pingv1connect.NewPingServiceClient(
		cannedResponse(200, http.Header{"Content-Type": []string{"application/connect+proto"}}, bytes.NewReader(body), nil), "http://example.com")
	ss, err := client.CountUp(context.Background(), connect.NewRequest(&pingv1.CountUpRequest{Number: 1}))
	if err != nil {
		t.Fatal(err)
	}
	for ss.Receive() {
	}
	if ss.Err() != nil {
		t.Fatal(ss.Err())
	}
	if got := ss.ResponseTrailer().Values("x-k"); len(got) != 2 || got[0] != "v1" || got[1] != "v2" {
		t.Fatalf("Trailer().Values(x-k) = %v; trailer = %v", got, ss.ResponseTrailer())
	}
}

type closeTrackingBody struct {
	io.Reader
	closed *bool
}

func (c closeTrackingBody) Close() error { *c.closed = true; return nil }

type failingCloseRequestConn struct {
	connect.StreamingClientConn
}

func (failingCloseRequestConn) CloseRequest() error { return errors.New("close request failed") }

type closeRequestFailInterceptor struct{}

func (closeRequestFailInterceptor) WrapUnary(next connect.UnaryFunc) connect.UnaryFunc { return next }
func (closeRequestFailInterceptor) WrapStreamingHandler(next connect.StreamingHandlerFunc) connect.StreamingHandlerFunc {
	return next
}
func (closeRequestFailInterceptor) WrapStreamingClient(next connect.StreamingClientFunc) connect.StreamingClientFunc {
	return func(ctx context.Context, spec connect.Spec) connect.StreamingClientConn {
		return failingCloseRequestConn{next(ctx, spec)}
	}
}

// F6 (C14): CallServerStream closes the response when CloseRequest fails.
func TestFindingF6ServerStreamCloseRequestError(t *testing.T) {
	closed := false
	body := closeTrackingBody{Reader: bytes.NewReader(envelopeBytes(2, []byte("{}"))), closed: &closed}
	httpClient := fakeHTTPClient(func(r *http.Request) (*http.Response, error) {
		return &http.Response{StatusCode: 200, Status: "OK", ProtoMajor: 2,
			Header: http.Header{"Content-Type": []string{"application/connect+proto"}}, Body: body, Request: r}, nil
	})
	client := pingv1connect.NewPingServiceClient(httpClient, "http://example.com",
		connect.WithInterceptors(closeRequestFailInterceptor{}))
	_, err := client.CountUp(context.Background(), connect.NewRequest(&pingv1.CountUpRequest{Number: 1}))
	if err == nil {
		t.Fatal("expected error")
	}
	if !closed {
		t.Fatalf("response body never closed")
	}
}

type errReader struct{ err error }

func (e errReader) Read([]byte) (int, error) { return 0, e.err }

// F8 (C14): CloseResponse closes the body even when draining it fails.
func TestFindingF8CloseReadDrainError(t *testing.T) {
	closed := false
	msg, _ := proto.Marshal(&pingv1.CountUpResponse{Number: 42})
	body := closeTrackingBody{
		Reader: io.MultiReader(bytes.NewReader(envelopeBytes(0, msg)), errReader{errors.New("connection reset")}),
		closed: &closed,
	}
	httpClient := fakeHTTPClient(func(r *http.Request) (*http.Response, error) {
		return &http.Response{StatusCode: 200, Status: "OK", ProtoMajor: 2,
			Header: http.Header{"Content-Type": []string{"application/connect+proto"}}, Body: body, Request: r}, nil
	})
	client := pingv1connect.NewPingServiceClient(httpClient, "http://example.com")
	ss, err := client.CountUp(context.Background(), connect.NewRequest(&pingv1.CountUpRequest{Number: 1}))
	if err != nil {
		t.Fatal(err)
	}
	if !ss.Receive() {
		t.Fatal(ss.Err())
	}
	_ = ss.Close()
	if !closed {
		t.Fatalf("response body never closed after a failed drain")
	}
}

// blockingBody delivers data, then blocks until the context ends and reports the
// context's error, like net/http's response bodies do.
type blockingBody struct {
	ctx     context.Context
	data    *bytes.Reader
	onBlock func() // called when the data is exhausted, before blocking
}

func (b *blockingBody) Read(p []byte) (int, error) {
	if b.data.Len() > 0 {
		return b.data.Read(p)
	}
	if b.onBlock != nil {
		go b.onBlock()
	}
	<-b.ctx.Done()
	return 0, b.ctx.Err()
}
func (b *blockingBody) Close() error { return nil }

// F9 (C15): a cancellation that interrupts a blocked Receive must surface as canceled.
func TestFindingF9CancelDuringReceive(t *testing.T) {
	msg, _ := proto.Marshal(&pingv1.CountUpResponse{Number: 42})
	for _, tc := range []struct {
		name, contentType string
		opts              []connect.ClientOption
		cut               int // bytes of the second envelope delivered before blocking
	}{
		{"connect/between-messages", "application/connect+proto", nil, 0},
		{"connect/mid-prefix", "application/connect+proto", nil, 3},
		{"grpc/between-messages", "application/grpc+proto", []connect.ClientOption{connect.WithGRPC()}, 0},
		{"grpcweb/mid-payload", "application/grpc-web+proto", []connect.ClientOption{connect.WithGRPCWeb()}, 6},
	} {
		t.Run(tc.name, func(t *testing.T) {
			ctx, cancel := context.WithCancel(context.Background())
			defer cancel()
			data := append(envelopeBytes(0, msg), envelopeBytes(0, msg)[:tc.cut]...)
			httpClient := fakeHTTPClient(func(r *http.Request) (*http.Response, error) {
				return &http.Response{StatusCode: 200, Status: "OK", ProtoMajor: 2,
					Header: http.Header{"Content-Type": []string{tc.contentType}},
					Body:   &blockingBody{ctx: ctx, data: bytes.NewReader(data)}, Request: r}, nil
			})
			client := pingv1connect.NewPingServiceClient(httpClient, "http://example.com", tc.opts...)
			ss, err := client.CountUp(ctx, connect.NewRequest(&pingv1.CountUpRequest{Number: 1}))
			if err != nil {
				t.Fatal(err)
			}
			if !ss.Receive() {
				t.Fatal(ss.Err())
			}
			go cancel()
			if ss.Receive() {
				t.Fatal("second Receive succeeded")
			}
			if got := connect.CodeOf(ss.Err()); got != connect.CodeCanceled {
				t.Errorf("cancel during a blocked Receive: code = %v, err = %v; want canceled", got, ss.Err())
			}
		})
	}
}

// F9 (C15): cancel while a unary call waits for the terminator after its response message.
func TestFindingF9CancelDuringUnaryTerminator(t *testing.T) {
	msg, _ := proto.Marshal(&pingv1.PingResponse{Number: 42})
	ctx, cancel := context.WithCancel(context.Background())
	defer cancel()
	httpClient := fakeHTTPClient(func(r *http.Request) (*http.Response, error) {
		return &http.Response{StatusCode: 200, Status: "OK", ProtoMajor: 2,
			Header: http.Header{"Content-Type": []string{"application/grpc+proto"}},
			Body:   &blockingBody{ctx: ctx, data: bytes.NewReader(envelopeBytes(0, msg)), onBlock: cancel}, Request: r}, nil
	})
	client := pingv1connect.NewPingServiceClient(httpClient, "http://example.com", connect.WithGRPC())
	_, err := client.Ping(ctx, connect.NewRequest(&pingv1.PingRequest{}))
	if err == nil {
		t.Fatal("expected an error")
	}
	if got := connect.CodeOf(err); got != connect.CodeCanceled {
		t.Errorf("cancel while waiting for the trailers of a unary call: code = %v, err = %v; want canceled", got, err)
	}
}

// Demonstration for finding F12 (property C15): drop into the repository root.
//
// When the context ends while the unary Connect client is throwing away the rest of an
// over-limit response, the call must fail with canceled / deadline_exceeded. The discard path
// wrapped whatever the transport reader returned - including the already coded context error - as
// invalid_argument.
package connect_test

import (
	"context"
	"errors"
	"io"
	"net/http"
	"testing"

	connect "github.com/bufbuild/connect-go"
	pingv1 "github.com/bufbuild/connect-go/internal/gen/connect/ping/v1"
)

// f12Body yields chunks; after the chunk at index cancelAfter it ends the call's context.
type f12Body struct {
	chunks      int
	cancelAfter int
	cancel      context.CancelFunc
	n           int
}

func (b *f12Body) Read(p []byte) (int, error) {
	if b.n >= b.chunks {
		return 0, io.EOF
	}
	if b.n == b.cancelAfter {
		b.cancel()
	}
	b.n++
	for i := range p {
		p[i] = 'x'
	}
	if len(p) > 256 {
		return 256, nil
	}
	return len(p), nil
}
func (b *f12Body) Close() error { return nil }

type f12Client struct{ body *f12Body }

func (c f12Client) Do(req *http.Request) (*http.Response, error) {
	go func() { _, _ = io.Copy(io.Discard, req.Body) }()
	return &http.Response{
		Status: "200 OK", StatusCode: 200, Proto: "HTTP/1.1", ProtoMajor: 1, ProtoMinor: 1,
		Header:  http.Header{"Content-Type": []string{"application/proto"}},
		Body:    c.body,
		Request: req,
	}, nil
}

func TestF12CancelWhileDiscardingOversizeResponse(t *testing.T) {
	for _, tc := range []struct {
		name string
		mk   func() (context.Context, context.CancelFunc)
		want connect.Code
	}{
		{"cancel", func() (context.Context, context.CancelFunc) { return context.WithCancel(context.Background()) }, connect.CodeCanceled},
	} {
		ctx, cancel := tc.mk()
		body := &f12Body{chunks: 64, cancelAfter: 8, cancel: cancel}
		client := connect.NewClient[pingv1.PingRequest, pingv1.PingResponse](
			f12Client{body: body}, "http://example.invalid/connect.ping.v1.PingService/Ping",
			connect.WithReadMaxBytes(512))
		_, err := client.CallUnary(ctx, connect.NewRequest(&pingv1.PingRequest{}))
		cancel()
		if err == nil {
			t.Fatalf("%s: call succeeded", tc.name)
		}
		if got := connect.CodeOf(err); got != tc.want {
			t.Errorf("%s: context ended while the over-limit response was being discarded: code %v (%v), want %v; errors.Is(context.Canceled)=%v",
				tc.name, got, err, tc.want, errors.Is(err, context.Canceled))
		}
	}
}

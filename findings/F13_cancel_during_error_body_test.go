package connect_test

import (
	"context"
	"io"
	"net/http"
	"testing"
	"time"

	"github.com/bufbuild/connect-go"
	pingv1 "github.com/bufbuild/connect-go/internal/gen/connect/ping/v1"
)

type ctxBody struct{ ctx context.Context }

func (b ctxBody) Read(p []byte) (int, error) { <-b.ctx.Done(); return 0, b.ctx.Err() }
func (b ctxBody) Close() error               { return nil }

type stalled503 struct{}

func (stalled503) Do(req *http.Request) (*http.Response, error) {
	go io.Copy(io.Discard, req.Body)
	return &http.Response{
		Status: "503 Service Unavailable", StatusCode: 503, Proto: "HTTP/1.1", ProtoMajor: 1, ProtoMinor: 1,
		Header: http.Header{"Content-Type": []string{"application/json"}},
		Body:   ctxBody{req.Context()}, Request: req,
	}, nil
}

// A unary Connect call whose context ends while the client reads the body of a non-200 response must
// fail as canceled / deadline_exceeded, not with the code inferred from the HTTP status.
func TestF13CancelDuringErrorBody(t *testing.T) {
	for name, mk := range map[string]func() (context.Context, context.CancelFunc, connect.Code){
		"cancel":   func() (context.Context, context.CancelFunc, connect.Code) { c, f := context.WithCancel(context.Background()); time.AfterFunc(50*time.Millisecond, f); return c, f, connect.CodeCanceled },
		"deadline": func() (context.Context, context.CancelFunc, connect.Code) { c, f := context.WithTimeout(context.Background(), 50*time.Millisecond); return c, f, connect.CodeDeadlineExceeded },
	} {
		ctx, cancel, want := mk()
		client := connect.NewClient[pingv1.PingRequest, pingv1.PingResponse](stalled503{}, "http://x/connect.ping.v1.PingService/Ping")
		_, err := client.CallUnary(ctx, connect.NewRequest(&pingv1.PingRequest{Number: 1}))
		cancel()
		if err == nil || connect.CodeOf(err) != want {
			t.Errorf("%s: got %v (code %v), want code %v", name, err, connect.CodeOf(err), want)
		}
	}
}

// Demonstration for finding F11 (properties C05 / C01): drop into the repository root.
//
// A unary Connect request whose body is not compressed must not carry Content-Encoding. The
// marshaler set the header when it compressed and never cleared it, and it writes into the
// caller's own header map: sending the same *connect.Request twice (a retry loop) with a large
// and then a small payload produced a second request that says gzip over an identity body, which
// no conformant server can decode.
package connect_test

import (
	"context"
	"net/http"
	"net/http/httptest"
	"strings"
	"testing"

	connect "github.com/bufbuild/connect-go"
	pingv1 "github.com/bufbuild/connect-go/internal/gen/connect/ping/v1"
	"github.com/bufbuild/connect-go/internal/gen/connect/ping/v1/pingv1connect"
)

type f11Ping struct {
	pingv1connect.UnimplementedPingServiceHandler
}

func (f11Ping) Ping(_ context.Context, req *connect.Request[pingv1.PingRequest]) (*connect.Response[pingv1.PingResponse], error) {
	return connect.NewResponse(&pingv1.PingResponse{Number: req.Msg.Number, Text: req.Msg.Text}), nil
}

func TestF11ReusedRequestDoesNotKeepStaleContentEncoding(t *testing.T) {
	mux := http.NewServeMux()
	mux.Handle(pingv1connect.NewPingServiceHandler(f11Ping{}))
	var seen []string
	server := httptest.NewServer(http.HandlerFunc(func(w http.ResponseWriter, r *http.Request) {
		seen = append(seen, r.Header.Get("Content-Encoding"))
		mux.ServeHTTP(w, r)
	}))
	defer server.Close()
	client := pingv1connect.NewPingServiceClient(server.Client(), server.URL,
		connect.WithSendGzip(), connect.WithCompressMinBytes(64))
	req := connect.NewRequest(&pingv1.PingRequest{})
	req.Msg.Text = strings.Repeat("x", 1024) // compressed
	if _, err := client.Ping(context.Background(), req); err != nil {
		t.Fatalf("first call: %v", err)
	}
	req.Msg.Text = "tiny" // below the threshold: sent as is
	res, err := client.Ping(context.Background(), req)
	if err != nil {
		t.Fatalf("second call with the same Request (Content-Encoding seen by the server: %q): %v", seen, err)
	}
	if res.Msg.Text != "tiny" {
		t.Fatalf("second call: got %q", res.Msg.Text)
	}
	if len(seen) != 2 || seen[0] != "gzip" || seen[1] != "" {
		t.Fatalf("Content-Encoding seen by the server: %q, want [gzip \"\"]", seen)
	}
}

// Demonstration for finding F10 (property C06): drop into the repository root.
//
// A non-200 response that carries no valid protocol-level error must be reported with the code
// derived from its HTTP status. Before the fix, the unary Connect client looked at Content-Encoding
// first: a 503 page from a CDN that was compressed with an algorithm the client does not know
// became "internal: unknown encoding" instead of "unavailable".
package connect_test

import (
	"context"
	"io"
	"net/http"
	"strings"
	"testing"

	connect "github.com/bufbuild/connect-go"
	pingv1 "github.com/bufbuild/connect-go/internal/gen/connect/ping/v1"
)

type f10Client struct {
	status   int
	encoding string
}

func (c f10Client) Do(req *http.Request) (*http.Response, error) {
	go func() { _, _ = io.Copy(io.Discard, req.Body) }()
	header := http.Header{"Content-Type": []string{"text/html"}}
	if c.encoding != "" {
		header.Set("Content-Encoding", c.encoding)
	}
	return &http.Response{
		Status:     http.StatusText(c.status),
		StatusCode: c.status,
		Proto:      "HTTP/1.1", ProtoMajor: 1, ProtoMinor: 1,
		Header:  header,
		Body:    io.NopCloser(strings.NewReader("\x1b\x03\x00not really brotli: <html>upstream unavailable</html>")),
		Request: req,
	}, nil
}

func TestF10Non200WithUnknownEncodingUsesHTTPStatus(t *testing.T) {
	for _, tc := range []struct {
		status int
		want   connect.Code
	}{
		{http.StatusServiceUnavailable, connect.CodeUnavailable},
		{http.StatusForbidden, connect.CodePermissionDenied},
		{http.StatusTooManyRequests, connect.CodeUnavailable},
		{http.StatusUnauthorized, connect.CodeUnauthenticated},
	} {
		for _, enc := range []string{"", "br", "zstd"} {
			client := connect.NewClient[pingv1.PingRequest, pingv1.PingResponse](
				f10Client{status: tc.status, encoding: enc}, "http://example.invalid/connect.ping.v1.PingService/Ping")
			_, err := client.CallUnary(context.Background(), connect.NewRequest(&pingv1.PingRequest{}))
			if err == nil {
				t.Fatalf("status %d encoding %q: call succeeded", tc.status, enc)
			}
			if got := connect.CodeOf(err); got != tc.want {
				t.Errorf("status %d, Content-Encoding %q: code %v (%v), want %v", tc.status, enc, got, err, tc.want)
			}
		}
	}
}

// Demonstration of defect F7 (C17). Copy into cmd/protoc-gen-connect-go of a
// scratch worktree and run `go test -run TestFindingF7 ./cmd/protoc-gen-connect-go`.
package main

import (
	"go/parser"
	"go/token"
	"strings"
	"testing"

	"google.golang.org/protobuf/compiler/protogen"
	"google.golang.org/protobuf/proto"
	"google.golang.org/protobuf/types/descriptorpb"
	"google.golang.org/protobuf/types/pluginpb"
)

func findingGenerate(t *testing.T, fd *descriptorpb.FileDescriptorProto) string {
	t.Helper()
	req := &pluginpb.CodeGeneratorRequest{
		FileToGenerate: []string{fd.GetName()},
		ProtoFile:      []*descriptorpb.FileDescriptorProto{fd},
	}
	plugin, err := protogen.Options{}.New(req)
	if err != nil {
		t.Fatal(err)
	}
	for _, file := range plugin.Files {
		if file.Generate {
			generate(plugin, file)
		}
	}
	resp := plugin.Response()
	if resp.Error != nil {
		t.Fatalf("generator error: %s", resp.GetError())
	}
	if len(resp.File) != 1 {
		t.Fatalf("%d files generated", len(resp.File))
	}
	return resp.File[0].GetContent()
}

func findingFile(pkg string, methods ...string) *descriptorpb.FileDescriptorProto {
	fd := &descriptorpb.FileDescriptorProto{
		Name:    proto.String("svc.proto"),
		Syntax:  proto.String("proto3"),
		Options: &descriptorpb.FileOptions{GoPackage: proto.String("example.com/gen/svc;svc")},
		MessageType: []*descriptorpb.DescriptorProto{
			{Name: proto.String("Req")}, {Name: proto.String("Res")},
		},
	}
	prefix := "."
	if pkg != "" {
		fd.Package = proto.String(pkg)
		prefix = "." + pkg + "."
	}
	svc := &descriptorpb.ServiceDescriptorProto{Name: proto.String("Svc")}
	for _, m := range methods {
		svc.Method = append(svc.Method, &descriptorpb.MethodDescriptorProto{
			Name: proto.String(m), InputType: proto.String(prefix + "Req"), OutputType: proto.String(prefix + "Res"),
		})
	}
	fd.Service = []*descriptorpb.ServiceDescriptorProto{svc}
	return fd
}

func TestFindingF7NoPackage(t *testing.T) {
	out := findingGenerate(t, findingFile("", "Do"))
	if strings.Contains(out, `"/.Svc/`) {
		t.Errorf("procedure path of a file without package starts with a dot:\n%s", grepLines(out, "/.Svc/"))
	}
	for _, want := range []string{`mux.Handle("/Svc/Do"`, `baseURL+"/Svc/Do"`, `return "/Svc/", mux`} {
		if !strings.Contains(strings.ReplaceAll(out, `baseURL + "`, `baseURL+"`), want) {
			t.Errorf("generated code lacks %s", want)
		}
	}
}

func TestFindingF7KeywordMethod(t *testing.T) {
	out := findingGenerate(t, findingFile("acme.v1", "Import", "Type", "Do"))
	if _, err := parser.ParseFile(token.NewFileSet(), "svc.connect.go", out, 0); err != nil {
		t.Fatalf("generated code does not parse: %v", err)
	}
}

func grepLines(s, sub string) string {
	var out []string
	for _, l := range strings.Split(s, "\n") {
		if strings.Contains(l, sub) {
			out = append(out, l)
		}
	}
	return strings.Join(out, "\n")
}

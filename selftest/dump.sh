#!/bin/bash
# usage: dump.sh <patch.diff> <func>  — print a function of the patched scratch copy as the checker sees it (after inlining)
set -u
tmp=$(mktemp -d /tmp/verif-dump.XXXXXX); trap 'rm -rf "$tmp"' EXIT
rsync -a --exclude .git /repo/ "$tmp/"
(cd "$tmp" && patch -p1 -s < "$1") || exit 3
/verif/bin/connectlint -repo "$tmp" -property C01 -no-evidence -dump "$2"

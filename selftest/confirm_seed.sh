#!/bin/bash
# usage: confirm_seed.sh <dir containing patch.diff + demo file(s) + meta.json>
# Confirms in a scratch worktree of /repo (removed afterwards) that: the demo passes without
# the change; with the change the tree builds, the existing suite passes, and the demo fails.
set -u
export GOFLAGS=-mod=mod GOPROXY=off GOSUMDB=off GOTOOLCHAIN=local; unset GOWORK
d=$(realpath "$1")
wt=$(mktemp -d /tmp/verif-confirm.XXXXXX); rmdir "$wt"
git -C /repo worktree add -q --detach "$wt" HEAD || exit 3
trap 'git -C /repo worktree remove --force "$wt" >/dev/null 2>&1; rm -rf "$wt"' EXIT
demo=$(ls "$d"/*_test.go 2>/dev/null | head -1)
[ -n "$demo" ] || { echo "NO-DEMO-TEST (non-test demo?)"; ls "$d"; exit 4; }
# destination package directory: first comment line may name it; default repo root
pkgdir=$(head -5 "$demo" | grep -oE '(cmd/[A-Za-z0-9_/-]+|internal/[A-Za-z0-9_/-]+)' | head -1)
pkgdir=${pkgdir:-.}
grep -q '^package main' "$demo" && pkgdir=cmd/protoc-gen-connect-go
run_demo() { (cd "$wt" && cp "$demo" "$pkgdir/zz_seed_demo_test.go" && go test -vet=off -count=1 -timeout 120s ${RACE:-} -run "${DEMO_RUN:-.}" "./$pkgdir" > "$wt/.demo.log" 2>&1; rc=$?; rm -f "$pkgdir/zz_seed_demo_test.go"; exit $rc); }
names=$(grep -oE '^func (Test[A-Za-z0-9_]+)' "$demo" | awk '{print $2}' | paste -sd'|')
DEMO_RUN="^(${names})\$"
run_demo; base=$?
echo "demo on unchanged tree: rc=$base"
(cd "$wt" && (git apply "$d/patch.diff" 2>/dev/null || patch -p1 -s --no-backup-if-mismatch < "$d/patch.diff")) || { echo "PATCH-DOES-NOT-APPLY"; exit 3; }
(cd "$wt" && go build ./... 2>&1 | head -5) | grep . && { echo "BUILD-FAILED"; exit 3; }
suite=0
for i in 1 2; do (cd "$wt" && go test -vet=off -count=1 ./... 2>&1 | grep -v "no test files" | grep -v "^ok" | head -10) | grep . && suite=1; done
echo "existing suite with change: $([ $suite = 0 ] && echo PASS || echo FAIL)"
run_demo; with=$?
echo "demo with change: rc=$with"; [ $with != 0 ] && grep -E "^(---|\s+zz_|panic|FAIL|WARNING: DATA RACE)" "$wt/.demo.log" | head -8
if [ $base = 0 ] && [ $suite = 0 ] && [ $with != 0 ]; then echo CONFIRMED; exit 0; else echo NOT-CONFIRMED; exit 1; fi

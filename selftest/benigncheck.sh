#!/bin/bash
# usage: benigncheck.sh <dir with k/patch.diff>   — runs all properties on each patched scratch copy
ALL=$(/verif/bin/connectlint -list | grep -oE '^C[0-9]+' | paste -sd,)
for k in $(ls "$1" | grep -E '^[0-9]+$'); do
  [ -f "$1/$k/patch.diff" ] || continue
  echo "=== $1/$k: $(head -2 "$1/$k/note.txt" 2>/dev/null | tr '\n' ' ' | cut -c1-160)"
  /verif/selftest/mut.sh "$ALL" "$1/$k/patch.diff" 2>&1 | grep -E '^(VIOLATION|PATCH|BUILD)' | sed 's/replay=[^ ]* //' | cut -c1-330
done

#!/bin/bash
# usage: import_round.sh <round> <out-root> <Cxx>...   — imports <out-root>/<Cxx>/<k> as <Cxx>-r<round>-<k>
r=$1; root=$2; shift 2
for p in "$@"; do
  for k in 1 2 3; do
    [ -f "$root/$p/$k/patch.diff" ] || continue
    /verif/selftest/import_seed.sh "$root/$p/$k" "$p-r$r-$k" "$p" 2>&1 | tail -2
  done
done

#!/opt/veriftools/pyvenv/bin/python
# validates MANIFEST.json and every evidence file against the schemas
import json,glob,sys,jsonschema
m=json.load(open('/verif/MANIFEST.json')); jsonschema.validate(m,json.load(open('/root/.vp/MANIFEST.schema.json')))
print('manifest ok: checks=%d not_applicable=%d'%(len(m['checks']),len(m.get('not_applicable',[]))))
es=json.load(open('/root/.vp/EVIDENCE.schema.json'))
for c in m['checks']:
    try:
        jsonschema.validate(json.load(open('/verif/'+c['evidence_file'])),es); print('evidence ok',c['property_id'])
    except Exception as e: print('EVIDENCE PROBLEM',c['property_id'],str(e)[:200])

#!/usr/bin/env python3
"""Regenerates /verif/selftest/mutants/*.diff and /verif/selftest/benign/*.diff from one-edit
specifications against /repo's HEAD (git show HEAD:file), so the self-test variants stay in sync
with the pinned tree. Each variant = (name, properties expected to fire (empty for benign), file,
python regex, replacement). Patterns use re.S and must match exactly once.
Usage: make_mutants.py            (writes the diff files; prints a line per variant)
"""
import difflib, os, re, subprocess, sys

REPO = "/repo"
OUT_M = "/verif/selftest/mutants"
OUT_B = "/verif/selftest/benign"

M = [
 # ---- C18
 ("c18-name-typo", "C18", "code.go", r'return "aborted"', 'return "abort"'),
 ("c18-fallback-gap", "C18", "code.go", r'code > int64\(maxCode\)', 'code > int64(maxCode)+1'),
 ("c18-bitsize-32", "C18", "code.go", r'10 /\* base \*/, 64', '10 /* base */, 32'),
 ("c18-status-200", "C18,C02", "protocol_connect.go", r'return 408', 'return 200'),
 ("c18-fallback-hex", "C18", "code.go", r'code_%d', 'code_%x'),
 ("c18-decode-guard-slip", "C18,C06", "protocol_grpc.go", r"c != '%' \|\| i\+2 >= len", "c != '%' || i+1 >= len"),
 ("c18-encode-miss-del", "C18", "protocol_grpc.go", r"c := msg\[i\]; c < ' ' \|\| c > '~'", "c := msg[i]; c < ' ' || c > 0x7f"),
 ("c18-escape-width", "C18", "protocol_grpc.go", r'%%%02X', '%%%X'),
 ("c18-skip-1", "C18", "protocol_grpc.go", r'i \+= 2', 'i += 1'),
 ("c18-b64-url", "C18,C11", "header.go", r'base64.RawStdEncoding.EncodeToString', 'base64.RawURLEncoding.EncodeToString'),
 ("c18-b64-guard", "C18,C11", "header.go", r'len\(data\)%4 != 0', 'len(data)%4 == 0'),
 # ---- C16 / C19
 ("c16-append-swapped", "C16", "option.go", r'append\(\[\]Interceptor\{current\}, o.Interceptors\.\.\.\)', 'append(o.Interceptors, current)'),
 ("c16-forward-construct", "C16", "interceptor.go", r'for i := len\(interceptors\) - 1; i >= 0; i--', 'for i := 0; i < len(interceptors); i++'),
 ("c16-nil-not-skipped", "C16", "interceptor.go", r'if interceptor := interceptors\[i\]; interceptor != nil \{', 'if interceptor := interceptors[i]; true {'),
 ("c16-single-drops-current", "C16,C19", "option.go", r'if current == nil && len\(o.Interceptors\) == 1 \{', 'if len(o.Interceptors) == 1 {'),
 ("c16-wrap-twice", "C16", "handler.go", r'implementation = ic.WrapStreamingHandler\(implementation\)', 'implementation = ic.WrapStreamingHandler(ic.WrapStreamingHandler(implementation))'),
 ("c16-wrap-dropped", "C16", "client.go", r'newConn = interceptor.WrapStreamingClient\(newConn\)', '_ = interceptor.WrapStreamingClient(newConn)'),
 ("c19-constant-to-handler", "C19", "recover.go", r'retErr = i.handle\(ctx, Spec\{\}, nil, r\)', 'retErr = i.handle(ctx, Spec{}, nil, "panic")'),
 ("c19-handler-twice", "C19", "recover.go", r'retErr = i.handle\(ctx, req.Spec\(\), req.Header\(\), r\)', 'retErr = i.handle(ctx, req.Spec(), req.Header(), r)\n\t\t\t\tretErr = i.handle(ctx, req.Spec(), req.Header(), r)'),
 ("c19-shadowed-result", "C19", "recover.go", r'retErr = i.handle\(ctx, Spec\{\}, nil, r\)', 'retErr := i.handle(ctx, Spec{}, nil, r)\n\t\t\t\t_ = retErr'),
 ("c19-flag-cleared-early", "C19", "recover.go", r'err := next\(ctx, conn\)\n\t\tpanicked = false', 'panicked = false\n\t\terr := next(ctx, conn)'),
 ("c19-textbook-recover", "C19", "recover.go", r'if panicked \{\n\t\t\t\tr := recover\(\)\n\t\t\t\t// net/http checks for ErrAbortHandler with ==, so we should too.\n\t\t\t\tif r == http.ErrAbortHandler \{ // nolint:errorlint,goerr113\n\t\t\t\t\tpanic\(r\) // nolint:forbidigo\n\t\t\t\t\}\n\t\t\t\tretErr = i.handle\(ctx, Spec\{\}, nil, r\)\n\t\t\t\}', 'if r := recover(); r != nil {\n\t\t\t\t_ = panicked\n\t\t\t\tif r == http.ErrAbortHandler { // nolint:errorlint,goerr113\n\t\t\t\t\tpanic(r) // nolint:forbidigo\n\t\t\t\t}\n\t\t\t\tretErr = i.handle(ctx, Spec{}, nil, r)\n\t\t\t}'),
 ("c19-no-sentinel-check", "C19", "recover.go", r'// net/http checks for ErrAbortHandler with ==, so we should too.\n\t\t\t\tif r == http.ErrAbortHandler \{ // nolint:errorlint,goerr113\n\t\t\t\t\tpanic\(r\) // nolint:forbidigo\n\t\t\t\t\}\n\t\t\t\tretErr = i.handle\(ctx, req', 'retErr = i.handle(ctx, req'),
 # ---- C07 / C12 / C10
 ("c07-timeout-falls-through", "C07,C10", "handler.go", r'_ = connCloser.Close\(timeoutErr\)\n\t\treturn', '_ = connCloser.Close(timeoutErr)'),
 ("c07-method-check-weak", "C07,C12", "handler.go", r'if request.Method != http.MethodPost \{', 'if request.Method == http.MethodGet {'),
 ("c07-415-falls-through", "C07,C12", "handler.go", r'responseWriter.WriteHeader\(http.StatusUnsupportedMediaType\)\n\t\treturn', 'responseWriter.WriteHeader(http.StatusUnsupportedMediaType)\n\t\tprotocolHandler = h.protocolHandlers[0]'),
 ("c07-newconn-ok-after-failure", "C07", "protocol_grpc.go", r'_ = conn.Close\(failed\)\n\t\treturn nil, false', '_ = conn.Close(failed)\n\t\treturn conn, true'),
 ("c07-newconn-no-close", "C07", "protocol_connect.go", r'\t\t_ = conn.Close\(failed\)\n', ''),
 ("c12-allow-get", "C12,C07", "handler.go", r'responseWriter.Header\(\).Set\("Allow", http.MethodPost\)', 'responseWriter.Header().Set("Allow", http.MethodGet)'),
 ("c12-wrong-stream-type", "C12", "client.go", r'conn := c.newConn\(ctx, StreamTypeServer\)', 'conn := c.newConn(ctx, StreamTypeClient)'),
 ("c12-strip-wrong-prefix", "C12", "protocol_connect.go", r'return strings.TrimPrefix\(contentType, connectStreamingContentTypePrefix\)', 'return strings.TrimPrefix(contentType, connectUnaryContentTypePrefix)'),
 ("c12-web-prefix-swapped", "C12", "protocol_grpc.go", r'if web \{\n\t\treturn grpcWebContentTypePrefix \+ name', 'if !web {\n\t\treturn grpcWebContentTypePrefix + name'),
 ("c12-accept-post-filtered", "C12", "protocol.go", r'for contentType := range handler.ContentTypes\(\) \{\n', 'for contentType := range handler.ContentTypes() {\n\t\t\tif strings.HasSuffix(contentType, "+json") {\n\t\t\t\tcontinue\n\t\t\t}\n'),
 ("c12-client-spec-not-client", "C12", "client.go", r'IsClient:   true,', 'IsClient:   false,'),
 ("c12-spec-bidi", "C12", "handler.go", r'spec:             config.newSpec\(StreamTypeUnary\),', 'spec:             config.newSpec(StreamTypeBidi),'),
 ("c12-bare-without-proto", "C12", "protocol_grpc.go", r'if params.Codecs.Get\(codecNameProto\) != nil \{\n\t\tcontentTypes\[bare\] = struct\{\}\{\}\n\t\}', 'contentTypes[bare] = struct{}{}'),
 ("c12-procedure-raw-url", "C12", "client.go", r'protoPath := extractProtoPath\(url\)', 'protoPath := url'),
 ("c10-nine-digits-parser", "C10", "protocol_grpc.go", r'if num > 99999999 \{', 'if num > 999999999 {'),
 ("c10-nine-digits-encoder", "C10", "protocol_grpc.go", r'if len\(digits\) < grpcMaxTimeoutChars \{', 'if len(digits) <= grpcMaxTimeoutChars+1 {'),
 ("c10-unit-letter", "C10,C05", "protocol_grpc.go", r"\{time.Minute, 'M'\}", "{time.Minute, 'm'}"),
 ("c10-reader-9-digits", "C10", "protocol_connect.go", r'if len\(timeout\) > 10 \{', 'if len(timeout) > 9 {'),
 ("c10-round-up", "C10", "protocol_connect.go", r'millis := int64\(time.Until\(deadline\) / time.Millisecond\)', 'millis := int64((time.Until(deadline) + time.Millisecond - 1) / time.Millisecond)'),
 ("c10-seconds-not-millis", "C10", "protocol_connect.go", r'time.Duration\(millis\)\*time.Millisecond,', 'time.Duration(millis)*time.Second,'),
 ("c10-wrong-code", "C10,C07", "protocol_grpc.go", r'return nil, nil, NewError\(CodeInvalidArgument, err\)', 'return nil, nil, NewError(CodeInternal, err)'),
 ("c10-writer-11-digits", "C10", "protocol_connect.go", r'if len\(encoded\) <= 10 \{', 'if len(encoded) <= 11 {'),
 ("c10-negative-accepted", "C10", "protocol_grpc.go", r'if err != nil \|\| num < 0 \{', 'if err != nil {'),
 ("c10-hours-guard-off-by-one", "C10", "protocol_grpc.go", r'num > grpcTimeoutMaxHours \{', 'num > grpcTimeoutMaxHours+1 {'),
 # ---- C06 (reverts of the zero-code fix, one site each) and tables
 ("c06-unary-zero-code", "C06", "protocol_connect.go", r'\t\t\tif serverErr.code == 0 \{.*?\n\t\t\t\}\n', ''),
 ("c06-endstream-zero-code", "C06", "protocol_connect.go", r'\tif u.endStreamErr != nil && u.endStreamErr.code == 0 \{.*?\n\t\}\n', ''),
 ("c06-grpc-status-00", "C06", "protocol_grpc.go", r'\tif code == 0 \{\n.*?\n\t\}\n', ''),
 ("c06-details-zero-code", "C06", "protocol_grpc.go", r'if statusCode := Code\(status.Code\); statusCode != 0 \{\n\t\t\tretErr.code = statusCode\n\t\t\}', 'retErr.code = Code(status.Code)'),
 ("c06-wrong-status-table", "C06", "protocol_connect.go", r'return errorf\(connectHTTPToCode\(response.StatusCode\), "HTTP status %v", response.Status\)', 'return errorf(grpcHTTPToCode(response.StatusCode), "HTTP status %v", response.Status)'),
 # ---- C13
 ("c13-no-block-before-header", "C13", "protocol_grpc.go", r'func \(cc \*grpcClientConn\) ResponseHeader\(\) http.Header \{\n\tcc.duplexCall.BlockUntilResponseReady\(\)\n', 'func (cc *grpcClientConn) ResponseHeader() http.Header {\n'),
 ("c13-err-without-lock", "C13", "duplex_http_call.go", r'func \(d \*duplexHTTPCall\) getError\(\) error \{\n\td.errMu.Lock\(\)\n\tdefer d.errMu.Unlock\(\)\n', 'func (d *duplexHTTPCall) getError() error {\n'),
 ("c13-handler-mutated-at-serve", "C13", "handler.go", r'func \(h \*Handler\) ServeHTTP\(responseWriter http.ResponseWriter, request \*http.Request\) \{\n', 'func (h *Handler) ServeHTTP(responseWriter http.ResponseWriter, request *http.Request) {\n\th.acceptPost = sortedAcceptPostValue(h.protocolHandlers)\n'),
 # ---- C01
 ("c01-typed-nil", "C01", "protocol_connect.go", r'func \(cc \*connectStreamingClientConn\) Send\(msg any\) error \{\n\tif err := cc.marshaler.Marshal\(msg\); err != nil \{\n\t\treturn err\n\t\}\n\treturn nil', 'func (cc *connectStreamingClientConn) Send(msg any) error {\n\treturn cc.marshaler.Marshal(msg)'),
 ("c01-little-endian-reader", "C01", "envelope.go", r'binary.BigEndian.Uint32\(prefixes\[1:5\]\)', 'binary.LittleEndian.Uint32(prefixes[1:5])'),
 ("c01-flags-dropped-on-compress", "C01,C05", "envelope.go", r'Flags: env.Flags \| flagEnvelopeCompressed,', 'Flags: flagEnvelopeCompressed,'),
 # ---- C17
 ("c17-checked-in-path-typo", "C17", "internal/gen/connect/ping/v1/pingv1connect/ping.connect.go", r'baseURL\+"/connect.ping.v1.PingService/Sum"', 'baseURL+"/connect.ping.v1.PingService/sum"'),
 ("c17-client-kind-swapped", "C17", "cmd/protoc-gen-connect-go/main.go", r'".CallClientStream\(ctx\)"', '".CallBidiStream(ctx)"'),
]

B = [
 ("benign-escape-more", "protocol_grpc.go", r"if c < ' ' \|\| c > '~' \|\| c == '%' \{\n\t\t\tout", "if c <= ' ' || c >= '~' || c == '%' {\n\t\t\tout"),
 ("benign-index-loop", "interceptor.go", r'for _, interceptor := range c.interceptors \{\n\t\tnext = interceptor.WrapUnary\(next\)', 'for i := 0; i < len(c.interceptors); i++ {\n\t\tnext = c.interceptors[i].WrapUnary(next)'),
 ("benign-string-copy", "protocol_grpc.go", r'return out.String\(\)\n\}\n\nfunc grpcPercentDecode\(', 'return string(out.Bytes())\n}\n\nfunc grpcPercentDecode('),
]


def make(name, path, pat, rep, outdir):
    old = subprocess.check_output(["git", "-C", REPO, "show", "HEAD:" + path]).decode()
    new, n = re.subn(pat, lambda m: rep, old, count=1, flags=re.S)
    if n != 1 or new == old:
        print("FAILED (pattern not found):", name)
        return False
    diff = "".join(difflib.unified_diff(old.splitlines(True), new.splitlines(True), "a/" + path, "b/" + path))
    os.makedirs(outdir, exist_ok=True)
    open(os.path.join(outdir, name + ".diff"), "w").write(diff)
    return True


def main():
    ok = True
    lines = []
    for name, props, path, pat, rep in M:
        if make(name, path, pat, rep, OUT_M):
            lines.append("%s %s" % (name, props))
        else:
            ok = False
    open(os.path.join(OUT_M, "EXPECT"), "w").write("# variant  properties whose quick check must report a VIOLATION\n" + "\n".join(lines) + "\n")
    for name, path, pat, rep in B:
        ok = make(name, path, pat, rep, OUT_B) and ok
    print("%d mutants, %d benign variants written" % (len(lines), len(B)))
    sys.exit(0 if ok else 1)


main()

#!/bin/bash
# usage: seedcheck.sh <dir-with-k/patch.diff> <property>[,<property>...]
dir=$1; props=$2
for k in $(ls "$dir" | grep -E '^[0-9]+$'); do
  [ -f "$dir/$k/patch.diff" ] || continue
  echo "=== $dir/$k : $(python3 -c "import json;print(json.load(open('$dir/$k/meta.json')).get('summary','')[:150])" 2>/dev/null)"
  /verif/selftest/mut.sh "$props" "$dir/$k/patch.diff" | grep -v '^connectlint' | cut -c1-260
  echo "--- rc=${PIPESTATUS[0]}"
done

#!/bin/bash
# Self-test of the checker: every variant is applied to a scratch copy of /repo's working tree
# (removed afterwards), built, and analysed by ./bin/connectlint in a separate process.
#   mutants/ + seeded/  must produce a VIOLATION for the listed property;
#   benign/             must stay silent on every property.
# usage: run.sh [-j N] [property-filter-regex]
set -u
J=8; [ "${1:-}" = "-j" ] && { J=$2; shift 2; }
FILTER=${1:-.}
cd /verif
work=$(mktemp -d /tmp/verif-selftest.XXXXXX); trap 'rm -rf "$work"' EXIT
cp bin/connectlint "$work/connectlint"; export CONNECTLINT="$work/connectlint"   # a rebuild during the run must not mix binaries
# every variant is compiled once: a private build cache (warmed with the dependencies, removed with $work)
# keeps some 30 MB per variant out of the user's cache
export GOCACHE="$work/gocache" GOFLAGS=-mod=mod GOPROXY=off GOSUMDB=off GOTOOLCHAIN=local
(cd /repo && go build ./... >/dev/null 2>&1)
: > "$work/jobs"
while read -r name props; do
  case "$name" in \#*|"") continue;; esac
  for p in ${props//,/ }; do echo "$p" | grep -Eq "$FILTER" && echo "mutant $name $p /verif/selftest/mutants/$name.diff" >> "$work/jobs"; done
done < selftest/mutants/EXPECT
for d in seeded/*/; do
  id=$(basename "$d"); p=$(python3 -c "import json;print(json.load(open('$d/meta.json'))['property'])")
  echo "$p" | grep -Eq "$FILTER" && echo "seeded $id $p /verif/${d}patch.diff" >> "$work/jobs"
done
ALL=ALL   # one process runs every registered rule once
for f in selftest/benign/*.diff selftest/benign/*/patch.diff; do
  [ -f "$f" ] || continue
  n=$(echo "$f" | sed 's#selftest/benign/##; s#/patch.diff##; s#.diff$##')
  echo "benign $n $ALL /verif/$f" >> "$work/jobs"
done
run_one() {
  kind=$1; name=$2; props=$3; patch=$4
  out=$(/verif/selftest/mut.sh "$props" "$patch" 2>&1); rc=$?
  viol=$(echo "$out" | grep -c '^VIOLATION')
  case "$kind" in
    benign) if [ $rc -eq 0 ]; then echo "PASS benign $name silent"; elif [ $rc -eq 3 ]; then echo "SKIP benign $name (patch/build failed)"; else echo "FAIL benign $name FALSE-ALARM: $(echo "$out" | grep '^VIOLATION' | head -3 | cut -c1-220)"; fi;;
    *) if [ $rc -eq 1 ] && [ "$viol" -gt 0 ]; then echo "PASS $kind $name $props detected: $(echo "$out" | grep '^VIOLATION' | sed 's/.*rule=\([a-z0-9-]*\).*/\1/' | sort -u | paste -sd,)"; elif [ $rc -eq 3 ]; then echo "SKIP $kind $name $props (patch/build failed)"; else echo "FAIL $kind $name $props MISSED"; fi;;
  esac
}
export -f run_one
sort -u "$work/jobs" | grep -E "^(${KIND:-.*}) " | xargs -P "$J" -L 1 bash -c 'run_one "$0" "$1" "$2" "$3"' | sort | tee "$work/results"
echo "---- $(grep -c '^PASS' "$work/results") pass, $(grep -c '^FAIL' "$work/results") fail, $(grep -c '^SKIP' "$work/results") skipped"
grep -q '^FAIL' "$work/results" && exit 1 || exit 0

#!/bin/bash
# usage: scratch.sh <patch>  -> prints a scratch copy dir with the patch applied (caller removes it)
tmp=$(mktemp -d /tmp/verif-dbg.XXXXXX); rsync -a --exclude .git /repo/ "$tmp/"; (cd "$tmp" && patch -p1 -s < "$1") || exit 3; echo "$tmp"

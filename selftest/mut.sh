#!/bin/bash
# usage: mut.sh <property[,property...]> <file> <python-regex-old> <new>      (ad-hoc one-line mutant)
#    or: mut.sh <property[,property...]> <patch.diff>
# Copies /repo's working tree to a scratch dir, applies the change, checks it builds,
# runs connectlint on the copy (no evidence written) and removes the copy.
set -u
export GOFLAGS=-mod=mod GOPROXY=off GOSUMDB=off GOTOOLCHAIN=local; unset GOWORK
props=$1; shift
tmp=$(mktemp -d /tmp/verif-mut.XXXXXX)
trap 'rm -rf "$tmp"' EXIT
rsync -a --exclude .git /repo/ "$tmp/"
if [ $# -eq 1 ]; then
  (cd "$tmp" && patch -p1 -s < "$1") || { echo "PATCH-FAILED"; exit 3; }
else
  python3 - "$tmp/$1" "$2" "$3" <<'PY' || { echo "EDIT-FAILED"; exit 3; }
import re,sys
p,old,new=sys.argv[1:4]
s=open(p).read()
s2,n=re.subn(old,new,s,count=1,flags=re.S)
if n!=1: sys.exit("pattern not found")
open(p,'w').write(s2)
PY
fi
(cd "$tmp" && go build ./... 2>&1 | head -5) | grep . && { echo "BUILD-FAILED"; exit 3; }
if [ "${RUN_TESTS:-0}" = 1 ]; then (cd "$tmp" && go test -vet=off -count=1 ./... 2>&1 | grep -v "no test files" | grep -v "^ok" | head -20); fi
rc=0
for p in ${props//,/ }; do
  "${CONNECTLINT:-/verif/bin/connectlint}" -verif /verif -repo "$tmp" -property "$p" ${RULE:+-rule $RULE} -no-evidence | grep -E "^(VIOLATION|KNOWN|connectlint)" | sed "s#$tmp/##g; s#replay=[^ ]* ##"
  [ "${PIPESTATUS[0]}" -ne 0 ] && rc=1
done
exit $rc

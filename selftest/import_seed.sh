#!/bin/bash
# usage: import_seed.sh <src dir> <dest id> <property>
# Confirms the seed (confirm_seed.sh), runs the property's quick check on a patched scratch copy,
# and stores patch.diff, the demonstration and an extended meta.json under /verif/seeded/<dest id>/.
set -u
src=$1; id=$2; prop=$3
dst=/verif/seeded/$id
conf=$(timeout 900 /verif/selftest/confirm_seed.sh "$src" 2>&1)
echo "$conf" | tail -1 | grep -q '^CONFIRMED' || { echo "$id NOT CONFIRMED"; echo "$conf" | tail -3; exit 1; }
det=$(/verif/selftest/mut.sh "$prop" "$src/patch.diff" 2>&1 | grep '^VIOLATION' | sed 's/^VIOLATION property=\([A-Z0-9]*\) kind=\([a-z]*\) rule=\([a-z0-9-]*\) key=\([^ ]*\).*/\1 \3 \4 \2/')
mkdir -p "$dst"
cp "$src/patch.diff" "$dst/patch.diff"
cp "$src"/*_test.go "$dst/" 2>/dev/null
python3 - "$src/meta.json" "$dst/meta.json" "$prop" "$conf" "$det" <<'PY'
import json,sys
src,dst,prop,conf,det=sys.argv[1:6]
m=json.load(open(src))
out={"property":prop,"breaks":m.get("summary",""),"needs_to_manifest":m.get("needs_to_manifest",""),"files_changed":m.get("files_changed",[]),
 "origin":"written by an independent sub-agent that saw only the property text and a scratch worktree of /repo (nothing from /verif)",
 "seeder_commands":m.get("commands_run",[]),
 "confirmed_by_me":{"how":"selftest/confirm_seed.sh in a fresh scratch worktree of /repo HEAD: demo passes on the unchanged tree; with the patch `go build ./...` succeeds, `go test -vet=off -count=1 ./...` passes twice with the demo absent, and the demo fails",
   "output_tail":conf.strip().splitlines()[-6:]},
 "detected_by":[dict(zip(["property","rule","key","kind"],l.split())) for l in det.strip().splitlines() if l.strip()],
 "detected":bool(det.strip())}
json.dump(out,open(dst,'w'),indent=1)
print(dst, "detected" if out["detected"] else "MISSED", sorted({d["rule"] for d in out["detected_by"]}))
PY

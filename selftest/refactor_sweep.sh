#!/bin/bash
# usage: refactor_sweep.sh [-j N] [-n SAMPLE] [-k KIND]     (SEED=<int> for the sample; SITES=<file of 'kind file index' lines> instead of sampling)
# False-alarm sweep: applies bin/refactor's mechanical, behaviour-preserving transformations, one site
# per scratch copy of /repo, and runs every check on the copy. Prints one line per copy that does not
# build (a defect of the tool, not counted) or on which a check alarms, then a summary.
# A site line `combo N SEED` applies N randomly chosen rewrites in a row (COMBO=<count> generates <count> such lines with N=3).
# TEST=1 also runs the repository's test suite on each copy (validates the tool itself).
set -u
export GOFLAGS=-mod=mod GOPROXY=off GOSUMDB=off GOTOOLCHAIN=local; unset GOWORK
J=14; N=300; K=
while getopts j:n:k: o; do case $o in j) J=$OPTARG;; n) N=$OPTARG;; k) K=$OPTARG;; esac; done
(cd /verif/checker && go build -o /verif/bin/refactor ./cmd/refactor) || exit 2
BIN=$(mktemp /tmp/connectlint.XXXXXX); cp /verif/bin/connectlint "$BIN"; chmod +x "$BIN"
OUT=$(mktemp -d /tmp/rfsweep.XXXXXX)
export GOCACHE="$OUT/gocache"   # TEST=1 compiles every copy: keep that out of the user's cache
trap 'rm -rf "$BIN" "$OUT"' EXIT
if [ -n "${COMBO:-}" ]; then for i in $(seq 1 "$COMBO"); do echo "combo ${COMBO_N:-3} $(( ${SEED:-1} * 100000 + i ))"; done > "$OUT/sites"
elif [ -n "${SITES:-}" ]; then cp "$SITES" "$OUT/sites"; else
/verif/bin/refactor -repo /repo -list | { [ -n "$K" ] && grep "^$K " || cat; } \
  | python3 -c "import sys,random; l=sys.stdin.read().splitlines(); random.Random(int('${SEED:-1}')).shuffle(l); print('\n'.join(l[:$N]))" > "$OUT/sites"
fi
one() {
  kind=$1 file=$2 idx=$3
  tmp=$(mktemp -d /tmp/verif-rf.XXXXXX)
  rsync -a --exclude .git /repo/ "$tmp/"
  if [ "$kind" = combo ]; then
    # "combo N SEED": N rewrites in a row, each chosen by the seed among the sites of the tree as it then
    # is; a rewrite after which the tree no longer builds is undone
    applied=""
    for step in $(seq 1 "$file"); do
      pick=$(/verif/bin/refactor -repo "$tmp" -list 2>/dev/null | grep -vE "^(${COMBO_SKIP:-add-param|edit-msg}) " | python3 -c "import sys,random; l=sys.stdin.read().splitlines(); print(random.Random($idx*31+$step).choice(l) if l else '')")
      [ -n "$pick" ] || continue
      set -- $pick
      rm -rf "$tmp.bak"; cp -a "$tmp" "$tmp.bak"
      if /verif/bin/refactor -repo "$tmp" -kind "$1" -file "$2" -n "$3" 2>/dev/null && /verif/bin/refactor -repo "$tmp" -list >/dev/null 2>&1; then applied="$applied$1:$2:$3,"; else rm -rf "$tmp"; mv "$tmp.bak" "$tmp"; fi
      rm -rf "$tmp.bak"
    done
    file="$file"; idx="$idx[$applied]"
  elif ! /verif/bin/refactor -repo "$tmp" -kind "$kind" -file "$file" -n "$idx" 2>"$tmp/.err"; then echo "TOOL-FAILED $kind $file $idx $(head -1 "$tmp/.err")"; rm -rf "$tmp"; return; fi
  if [ "${TEST:-0}" = 1 ]; then
    (cd "$tmp" && go test -vet=off -count=1 ./... 2>&1 | grep -E "^(FAIL|---)" | head -3) | grep . | sed "s#^#TEST-FAILED $kind $file $idx #"
  fi
  "$BIN" -verif /verif -repo "$tmp" -property ALL -no-evidence > "$tmp/.out" 2>&1
  grep -q "^connectlint" "$tmp/.out" || { echo "TOOL-FAILED $kind $file $idx checker did not run"; rm -rf "$tmp"; return; }
  if grep -q "rule=load " "$tmp/.out"; then echo "BUILD-FAILED $kind $file $idx $(grep -o "load/type errors:.*" "$tmp/.out" | cut -c1-200 | head -1)"; rm -rf "$tmp"; return; fi
  r=$(grep -E "^VIOLATION" "$tmp/.out" | sed "s#$tmp/##g; s#replay=[^ ]* ##" | head -5)
  if [ -n "$r" ]; then echo "$r" | sed "s#^#ALARM $kind $file $idx #"; else echo "SILENT $kind $file $idx"; fi
  rm -rf "$tmp"
}
export -f one; export BIN
xargs -P "$J" -L 1 bash -c 'one "$@"' _ < "$OUT/sites" > "$OUT/res"
grep -v "^SILENT" "$OUT/res" | sort
echo "refactor sweep: $(grep -c ^SILENT "$OUT/res") silent, $(grep ^ALARM "$OUT/res" | awk '{print $2,$3,$4}' | sort -u | wc -l) alarmed, $(grep -c -E "^(BUILD|TOOL)-FAILED" "$OUT/res") not built, of $(wc -l < "$OUT/sites") sites"
